#!/usr/bin/env python3
"""writes units/bodies.lock.json: for every function a unit extracts, the normalised lines of its text on the tree the
proofs were written for (run on the unchanged /repo after every fix commit).  gen_unit compares the current text with
it: a function that differs in more than MAX_CHANGED lines is 'rewritten' -- a Verus failure there is a failed proof
attempt (undecided unless a lane with concrete inputs confirms it), because hints and invariants were written for
another body."""
import json, os, sys, glob
HERE = os.path.dirname(os.path.abspath(__file__)); VERIF = os.path.dirname(HERE)
sys.path.insert(0, HERE)
import gen_unit, tempfile, shutil

def norm(text):
    return [' '.join(l.split()) for l in text.split('\n') if l.strip() and not l.strip().startswith('//')]

def main():
    repo = sys.argv[1] if len(sys.argv) > 1 else '/repo'
    lock = {}
    r = gen_unit.Repo(repo)
    for tp in sorted(glob.glob(os.path.join(VERIF, 'units', '*.rs'))):
        work = tempfile.mkdtemp(prefix='lock_', dir='/tmp')
        try:
            log = gen_unit.generate(tp, repo, os.path.join(work, 'u.rs'), os.path.join(work, 'u.json'))
        finally:
            shutil.rmtree(work, ignore_errors=True)
        for it in log.get('items', []):
            if it.get('kind') != 'fn':
                continue
            src = r.source(it['file'])
            lines = src.text.split('\n')[it['line'] - 1: (it.get('end_line') or it['line'])]
            lock['%s::%s' % (it['file'], it['item'])] = norm('\n'.join(lines))
    json.dump(lock, open(os.path.join(VERIF, 'units', 'bodies.lock.json'), 'w'), indent=0, sort_keys=True)
    print('locked', len(lock), 'functions')

if __name__ == '__main__':
    main()
