"""vlib -- lane V: generate a unit from /repo's current text, run Verus, name the obligations."""
import json
import os
import re
import subprocess
import sys
import time

HERE = os.path.dirname(os.path.abspath(__file__))
VERIF = os.path.dirname(HERE)
sys.path.insert(0, HERE)
import gen_unit  # noqa: E402

# messages of Verus diagnostics that are *failed proof obligations* (anything else at error
# level -- type errors, unsupported constructs, rlimit, internal errors -- is "undecided")
PROOF_FAIL = [
    (r'postcondition not satisfied', 'post'),
    (r'precondition not satisfied', 'pre'),
    (r'invariant not satisfied before loop', 'inv_entry'),
    (r'invariant not satisfied at end of loop body', 'inv_step'),
    (r'invariant not satisfied', 'inv'),
    (r'loop ensures', 'loop_post'),
    (r'assertion failed', 'assert'),
    (r'possible arithmetic underflow/overflow', 'overflow'),
    (r'possible division by zero', 'div0'),
    (r'possible bit shift underflow/overflow', 'shift'),
    (r'decreases not satisfied', 'decreases'),
    (r'could not prove termination', 'decreases'),
    (r'unreachable', 'panic'),
    (r'cannot show .* panic', 'panic'),
    (r'failed this', 'post'),
    (r'break.*loop', 'loop_post'),
]
SAFETY_KINDS = {'overflow', 'div0', 'shift', 'panic'}
UNDECIDED_HINTS = [r'rlimit', r'Resource limit', r'not supported', r'does not yet support',
                   r'unsupported', r'internal error', r'panicked at']


def classify(msg):
    for pat, kind in PROOF_FAIL:
        if re.search(pat, msg):
            return kind
    return None


def unit_meta(template):
    """//@unit props=C06,C14 safety=C14   header line of a template"""
    meta = {'props': [], 'safety': []}
    for line in open(template):
        m = re.match(r'\s*//@unit\s+(.*)$', line)
        if m:
            for kv in m.group(1).split():
                k, _, v = kv.partition('=')
                meta[k] = [x for x in v.split(',') if x]
            break
    if not meta['safety']:
        meta['safety'] = list(meta['props'])
    return meta


def _origin_for(lines_map, line):
    """most specific origin recorded for a generated line (1-based)"""
    if line - 1 >= len(lines_map) or line < 1:
        return None
    orgs = lines_map[line - 1]
    best = None
    for o in orgs:
        if o.get('src') == 'insert':
            return o
        if o.get('src') in ('repo', 'rewrite') and best is None:
            best = o
        if best is None:
            best = o
    return best


def _label_scan(lines_map, gen_lines, line):
    """walk upwards inside the same insertion to find the nearest `//# label`"""
    ln = line
    while ln >= 1:
        txt = gen_lines[ln - 1]
        m = re.match(r'\s*(?:/\*@I\{\*/)?\s*//#\s*(\S+)', txt)
        if m:
            return m.group(1)
        if '/*@I{*/' in txt and ln != line:
            break
        ln -= 1
    return None


def run_unit(unit, repo_root, tier='quick', rlimit=None, extra_args=None, template=None,
             build_root=None):
    """generate + verify; functions whose bodies Verus rejects (unsupported construct, type error
    against the shims) are abstracted one round at a time so that the rest of the unit is still
    checked -- such functions are reported as undecided by lane V, never as violations"""
    abstract = set()
    res = None
    for _round in range(4):
        res = _run_unit_once(unit, repo_root, tier, rlimit, extra_args, template, build_root, frozenset(abstract))
        new = set(res.get('reject_items') or []) - abstract
        if res['status'] != 'undecided' or not new:
            break
        abstract |= new
    res['abstracted'] = sorted(abstract)
    if abstract and res['status'] == 'ok':
        res['status'] = 'partial'
        res['reason'] = 'bodies outside the verifiable subset (assumed, not checked): %s -- %s' % (
            ', '.join(sorted(abstract)), '; '.join(res.get('reject_msgs', [])[:2]))
    return res


def _run_unit_once(unit, repo_root, tier, rlimit, extra_args, template, build_root, abstract):
    template = template or os.path.join(VERIF, 'units', unit + '.rs')
    bdir = os.path.join(build_root or os.path.join(VERIF, 'build'), unit)
    os.makedirs(bdir, exist_ok=True)
    out_rs = os.path.join(bdir, unit + '.rs')
    out_map = os.path.join(bdir, unit + '.map.json')
    res = {'unit': unit, 'status': 'undecided', 'verified': 0, 'errors': 0, 'failures': [],
           'functions': [], 'reason': None, 'smt_ms': 0, 'wall_s': 0.0, 'generated': out_rs,
           'meta': unit_meta(template), 'log': None, 'labels': [], 'scan': {}}
    t0 = time.time()
    try:
        log = gen_unit.generate(template, repo_root, out_rs, out_map, abstract)
    except gen_unit.GenError as e:
        res['reason'] = 'extraction: %s' % e
        res['wall_s'] = time.time() - t0
        return res
    res['log'] = log
    gen_text = open(out_rs).read()
    gen_lines = gen_text.split('\n')
    lines_map = json.load(open(out_map))['lines']
    res['labels'] = re.findall(r'//#\s*(\S+)', gen_text)
    res['scan'] = scan_assumptions(gen_text)
    cmd = ['verus', out_rs, '--output-json', '--time', '--error-format=json',
           '--multiple-errors', '20']
    if rlimit:
        cmd += ['--rlimit', str(rlimit)]
    if extra_args:
        cmd += extra_args
    res['cmd'] = ' '.join(cmd)
    try:
        p = subprocess.run(cmd, cwd=bdir, capture_output=True, text=True, timeout=900)
    except subprocess.TimeoutExpired:
        res['reason'] = 'verus timeout'
        res['wall_s'] = time.time() - t0
        return res
    res['wall_s'] = time.time() - t0
    with open(os.path.join(bdir, unit + '.stderr.json'), 'w') as f:
        f.write(p.stderr)
    with open(os.path.join(bdir, unit + '.stdout.json'), 'w') as f:
        f.write(p.stdout)
    summary = None
    try:
        summary = json.loads(p.stdout)
    except Exception:
        pass
    diags = []
    raw_noise = []
    for l in p.stderr.split('\n'):
        l = l.strip()
        if not l:
            continue
        if l.startswith('{'):
            try:
                diags.append(json.loads(l))
                continue
            except Exception:
                pass
        raw_noise.append(l)
    undecided = []
    failures = []
    reject_items = set()
    reject_msgs = []
    lost_by_item = {it['item']: it.get('lost_anchors') or [] for it in log.get('items', []) if it.get('kind') == 'fn'}
    for d in diags:
        if d.get('level') != 'error':
            continue
        msg = d.get('message', '')
        if re.match(r'aborting due to', msg):
            continue
        kind = classify(msg)
        spans = d.get('spans', [])
        prim = [s for s in spans if s.get('is_primary')] or spans
        if kind is None or not prim:
            # not a proof obligation: unsupported construct / type error ...  If it sits inside an
            # extracted function, that function can be abstracted and the unit re-run.
            item = None
            for sp in (prim or spans):
                o = _origin_for(lines_map, sp['line_start']) or {}
                if o.get('src') in ('repo', 'rewrite', 'insert') and o.get('item') in lost_by_item:
                    item = o['item']
                    break
            if item and item not in abstract:
                reject_items.add(item)
                reject_msgs.append('%s: %s' % (item, msg[:160]))
            else:
                undecided.append(msg)
            continue
        ps = prim[0]
        # the span that names the *clause* (postcondition / precondition text) if there is one
        clause_span = None
        for s in spans:
            lab = (s.get('label') or '')
            if 'failed this' in lab or 'failed precondition' in lab:
                clause_span = s
        at_span = ps if clause_span is None or clause_span is ps else \
            [s for s in spans if s is not clause_span][0]
        named = clause_span or ps
        org = _origin_for(lines_map, named['line_start']) or {}
        label = None
        if org.get('src') == 'insert':
            label = _label_scan(lines_map, gen_lines, named['line_start']) or org.get('label')
        elif org.get('src') == 'template':
            label = _label_scan(lines_map, gen_lines, named['line_start'])
        # a span inside a macro body (panic!/unreachable!/format! shims) names the macro definition; the place that
        # matters is the outermost expansion site
        site = at_span
        while isinstance(site.get('expansion'), dict) and isinstance(site['expansion'].get('span'), dict):
            site = site['expansion']['span']
        at_org = _origin_for(lines_map, site['line_start']) or {}
        if kind == 'pre':
            # a failed precondition belongs to the CALLER (where the proof is attempted), not to the callee whose clause is quoted
            item = at_org.get('item') or _enclosing_fn(gen_lines, site['line_start']) or org.get('item')
        else:
            item = org.get('item') or at_org.get('item') or _enclosing_fn(gen_lines, named['line_start'])
        where = None
        for o in (at_org, org):
            if o.get('src') in ('repo', 'rewrite'):
                where = '%s:%d' % (o['file'].split('/')[-1], o['line'])
                break
        if label:
            name = '%s/%s/%s:%s' % (unit, item, kind, label)
        elif where:
            name = '%s/%s/%s@%s' % (unit, item, kind, where)
        else:
            name = '%s/%s/%s@gen:%d' % (unit, item, kind, named['line_start'])
        text = (named.get('text') or [{}])[0].get('text', '').strip()
        failures.append({
            'name': name, 'kind': kind, 'label': label, 'item': item, 'message': msg,
            'where': where, 'gen_line': named['line_start'], 'clause_text': text[:300],
            'at_text': ((at_span.get('text') or [{}])[0].get('text', '').strip())[:300],
            'safety': kind in SAFETY_KINDS or (kind == 'pre' and org.get('src') not in ('insert',)
                                               and _is_safety_pre(gen_lines, named['line_start'])),
            'rendered': d.get('rendered', '')[:3000],
            'degraded': bool(lost_by_item.get(item)), 'lost_anchors': lost_by_item.get(item) or [],
        })
    if summary:
        vr = summary.get('verification-results', {})
        res['verified'] = vr.get('verified', 0)
        res['errors'] = vr.get('errors', 0)
        try:
            for m in summary['times-ms']['smt']['smt-run-module-times']:
                for fb in m.get('function-breakdown', []):
                    res['functions'].append({'function': fb['function'].split('::', 1)[-1],
                                             'mode': fb.get('mode:'), 'success': fb.get('success'),
                                             'smt_us': fb.get('time-micros'), 'rlimit': fb.get('rlimit')})
            res['smt_ms'] = summary['times-ms']['smt'].get('smt-run', 0)
            res['verus_total_ms'] = summary['times-ms'].get('total', 0)
        except Exception:
            pass
        res['verus_version'] = summary.get('verus', {}).get('version')
    res['failures'] = failures
    res['reject_items'] = sorted(reject_items)
    res['reject_msgs'] = reject_msgs
    res['degraded_items'] = {k: v for k, v in lost_by_item.items() if v}
    if reject_items and not undecided:
        res['status'] = 'undecided'
        res['reason'] = 'verus rejected the body of: ' + '; '.join(reject_msgs[:3])
        return res
    if undecided or summary is None or (summary and summary['verification-results'].get('encountered-vir-error')):
        res['status'] = 'undecided'
        res['reason'] = 'verus: ' + '; '.join(undecided[:3] or raw_noise[-3:] or ['no summary'])
    elif failures:
        res['status'] = 'failed'
    elif summary['verification-results'].get('success') and res['verified'] > 0:
        res['status'] = 'ok'
    else:
        res['status'] = 'undecided'
        res['reason'] = 'verus reported no success and no nameable failure: %s' % '; '.join(raw_noise[-3:])
    return res


def _enclosing_fn(gen_lines, line):
    ln = line
    while ln >= 1:
        m = re.search(r'\bfn\s+(\w+)', gen_lines[ln - 1])
        if m and not gen_lines[ln - 1].lstrip().startswith('//'):
            return m.group(1)
        ln -= 1
    return '?'


def _is_safety_pre(gen_lines, line):
    """a failed precondition whose clause sits in a template region marked `// SAFETY-SHIM`
    (slice index, unwrap, expect, panic ...) counts as a safety obligation"""
    ln = line
    while ln >= 1 and line - ln < 60:
        t = gen_lines[ln - 1]
        if 'SAFETY-SHIM' in t:
            return True
        if re.search(r'\bfn\s+\w+', t) and ln != line:
            # look one line above the fn for the marker, then stop
            for k in range(max(1, ln - 3), ln):
                if 'SAFETY-SHIM' in gen_lines[k - 1]:
                    return True
            return False
        ln -= 1
    return False


def scan_assumptions(gen_text):
    """mechanical scan of the generated file for everything that is assumed, not proved"""
    out = {}
    for key, pat in [('admit', r'\badmit\s*\(\s*\)'), ('assume', r'\bassume\s*\('),
                     ('external_body', r'external_body'),
                     ('assume_specification', r'assume_specification'),
                     ('external_type_specification', r'external_type_specification'),
                     ('havoc', r'\bhavoc::<'), ('uninterp', r'\buninterp\b')]:
        out[key] = len(re.findall(pat, gen_text))
    names = re.findall(r'#\[verifier::external_body\]\s*(?:pub\s+)?(?:const\s+)?(?:proof\s+|broadcast\s+proof\s+)?fn\s+(\w+)', gen_text)
    out['external_body_fns'] = sorted(set(names))
    out['assumed_specs'] = sorted(set(re.findall(r'assume_specification\s*(?:<[^>]*>)?\s*\[\s*([^\]]+?)\s*\]', gen_text)))
    out['admitted_lemmas'] = sorted(set(re.findall(r'proof fn\s+(\w+)[^{]*\{\s*admit\(\);', gen_text, flags=re.S)))
    return out


def run_breaks(unit, gen_file, workdir):
    """thorough tier: deliberate breaks of the generated text must make Verus fail (vacuity / weak-contract guard)"""
    cat = json.load(open(os.path.join(VERIF, 'units', 'breaks.json'))).get(unit, [])
    text = open(gen_file).read()
    out = []
    for i, (old, new) in enumerate(cat):
        r = {'break': old[:70].replace('\n', ' '), 'status': None}
        if old not in text:
            r['status'] = 'anchor_lost'
            out.append(r)
            continue
        p = os.path.join(workdir, '%s_break%d.rs' % (unit, i))
        with open(p, 'w') as f:
            f.write(text.replace(old, new, 1))
        try:
            pr = subprocess.run(['verus', p, '--output-json'], cwd=workdir, capture_output=True, text=True, timeout=600)
            js = json.loads(pr.stdout) if pr.stdout.strip().startswith('{') else None
        except Exception:
            js = None
        if js is None:
            r['status'] = 'rejected'          # does not compile / unsupported: not informative
        else:
            vr = js.get('verification-results', {})
            r['status'] = 'caught' if vr.get('errors', 0) > 0 or vr.get('encountered-error') else 'SURVIVED'
        os.remove(p)
        out.append(r)
    return out
