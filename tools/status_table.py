#!/usr/bin/env python3
"""prints the status table of DESIGN.md section 12 from the evidence files (evidence/<id>.json) of the last run"""
import json, os, sys
HERE = os.path.dirname(os.path.abspath(__file__))
EV = os.path.join(os.path.dirname(HERE), 'evidence')
rows = []
units_seen = {}
for f in sorted(os.listdir(EV)):
    if not f.endswith('.json'): continue
    e = json.load(open(os.path.join(EV, f))); c = e['coverage']
    vu = ', '.join('%s (%d)' % (u['unit'], u['verified']) for u in c.get('verus_units') or []) or '-'
    for u in c.get('verus_units') or []: units_seen[u['unit']] = u['verified']
    kh = ', '.join('%s[%s]' % (k['harness'], 'c' if k.get('class') == 'complete' else 'b') for k in c.get('kani_harnesses') or []) or '-'
    ns = ', '.join('%s (%d)' % (n['suite'], n['cases']) for n in c.get('native_suites') or []) or '-'
    kf = '; '.join(x.split('/')[-1] for x in c.get('known_findings_reported') or []) or '-'
    rows.append('| %s | %s | %s | %s | %s |' % (e['property_id'], vu, kh, ns, kf))
print('| property | Verus units (function-level obligations discharged) | Kani harnesses, quick tier [c = complete over the stated domain, b = bounded] | native suites (cases, quick tier) | known findings reported |')
print('|---|---|---|---|---|')
print('\n'.join(rows))
print()
print('units: %d, obligations (each unit once): %d' % (len(units_seen), sum(units_seen.values())))
