"""rsx -- a small Rust source scanner used by the extractor.

It tokenises a Rust file (comments, strings, raw strings, char literals vs lifetimes,
identifiers, numbers, punctuation), matches brackets and locates items:

    find_fn(src, container, name)   ->  FnItem  (signature text, body text, positions)
    find_type(src, kind, name)      ->  TypeItem (struct / enum definition)

Nothing is rewritten here; the callers splice text at byte offsets this module reports.
"""
import re
from dataclasses import dataclass, field


class ScanError(Exception):
    pass


@dataclass
class Tok:
    kind: str   # ident | num | str | char | life | punct | comment
    text: str
    start: int
    end: int


_ident = re.compile(r'[A-Za-z_][A-Za-z0-9_]*')
_num = re.compile(r'[0-9][0-9a-zA-Z_]*(?:\.[0-9][0-9a-zA-Z_]*)?')


def tokenize(s, keep_comments=False):
    toks = []
    i, n = 0, len(s)
    while i < n:
        c = s[i]
        if c.isspace():
            i += 1
            continue
        if s.startswith('//', i):
            j = s.find('\n', i)
            j = n if j < 0 else j
            if keep_comments:
                toks.append(Tok('comment', s[i:j], i, j))
            i = j
            continue
        if s.startswith('/*', i):
            depth, j = 1, i + 2
            while j < n and depth:
                if s.startswith('/*', j):
                    depth += 1; j += 2
                elif s.startswith('*/', j):
                    depth -= 1; j += 2
                else:
                    j += 1
            if keep_comments:
                toks.append(Tok('comment', s[i:j], i, j))
            i = j
            continue
        # raw strings r"..", r#".."#, br#".."#
        m = re.match(r'b?r(#*)"', s[i:i + 12])
        if m:
            hashes = m.group(1)
            close = '"' + hashes
            j = s.find(close, i + m.end())
            if j < 0:
                raise ScanError('unterminated raw string at %d' % i)
            j += len(close)
            toks.append(Tok('str', s[i:j], i, j))
            i = j
            continue
        if c == '"' or (c == 'b' and s.startswith('b"', i)):
            j = i + (2 if c == 'b' else 1)
            while j < n and s[j] != '"':
                j += 2 if s[j] == '\\' else 1
            j += 1
            toks.append(Tok('str', s[i:j], i, j))
            i = j
            continue
        if c == "'" or (c == 'b' and s.startswith("b'", i)):
            k = i + (1 if c == 'b' else 0)
            # char literal: 'x' or '\..'
            m = re.match(r"'(\\x[0-9a-fA-F]{2}|\\u\{[0-9a-fA-F]+\}|\\.|[^\\'])'", s[k:k + 14])
            if m:
                j = k + m.end()
                toks.append(Tok('char', s[i:j], i, j))
                i = j
                continue
            m = re.match(r"'[A-Za-z_][A-Za-z0-9_]*", s[k:])
            if m and c == "'":
                j = k + m.end()
                toks.append(Tok('life', s[i:j], i, j))
                i = j
                continue
            raise ScanError('bad quote at %d' % i)
        m = _ident.match(s, i)
        if m:
            toks.append(Tok('ident', m.group(0), i, m.end()))
            i = m.end()
            continue
        m = _num.match(s, i)
        if m:
            toks.append(Tok('num', m.group(0), i, m.end()))
            i = m.end()
            continue
        toks.append(Tok('punct', c, i, i + 1))
        i += 1
    return toks


_OPEN = {'{': '}', '(': ')', '[': ']'}
_CLOSE = {v: k for k, v in _OPEN.items()}


def match_brackets(toks):
    """returns dict open_index -> close_index (and reverse) over token indices"""
    stack, pair = [], {}
    for idx, t in enumerate(toks):
        if t.kind != 'punct':
            continue
        if t.text in _OPEN:
            stack.append(idx)
        elif t.text in _CLOSE:
            if not stack or toks[stack[-1]].text != _CLOSE[t.text]:
                raise ScanError('unbalanced %s at %d' % (t.text, t.start))
            o = stack.pop()
            pair[o] = idx
            pair[idx] = o
    if stack:
        raise ScanError('unclosed bracket at %d' % toks[stack[-1]].start)
    return pair


def norm_ws(s):
    return re.sub(r'\s+', ' ', s).strip()


@dataclass
class FnItem:
    file: str
    container: str
    name: str
    start: int          # offset of first modifier token (pub/const/fn)
    fn_kw: int          # offset of `fn`
    sig_end: int        # offset of the body's `{`
    body_start: int     # same as sig_end
    body_end: int       # offset one past the closing `}`
    vis: str            # visibility text ('' if none)
    sig: str            # text from after visibility up to (excluding) the body `{`, stripped
    body: str           # `{ ... }`
    line: int           # 1-based line of `fn`
    text: str = ''      # full verbatim text start..body_end


@dataclass
class TypeItem:
    file: str
    kind: str
    name: str
    start: int
    end: int
    vis: str
    text: str
    line: int
    attrs: list = field(default_factory=list)


class Source:
    def __init__(self, path, relpath=None):
        self.path = path
        self.rel = relpath or path
        self.text = open(path, encoding='utf-8').read()
        self.toks = tokenize(self.text)
        self.pair = match_brackets(self.toks)
        self._containers = None

    def line_of(self, off):
        return self.text.count('\n', 0, off) + 1

    # ---- container discovery -------------------------------------------------------
    def containers(self):
        """list of (header_norm, open_tok_idx, close_tok_idx, chain) for every
        impl/trait/mod block, where chain is the list of enclosing container headers."""
        if self._containers is not None:
            return self._containers
        res = []

        def walk(lo, hi, chain):
            i = lo
            stmt_start = lo
            while i < hi:
                t = self.toks[i]
                if t.kind == 'punct' and t.text in '([':
                    i = self.pair[i] + 1
                    continue
                if t.kind == 'punct' and t.text == ';':
                    stmt_start = i + 1
                    i += 1
                    continue
                if t.kind == 'punct' and t.text == '{':
                    close = self.pair[i]
                    head = self.toks[stmt_start:i]
                    words = [x.text for x in head if x.kind == 'ident']
                    kw = None
                    for w in ('impl', 'trait', 'mod'):
                        if w in words:
                            # `impl` may appear inside fn signatures (impl Trait); require that
                            # no `fn` precedes it in the header
                            pos = words.index(w)
                            if 'fn' not in words[:pos] and 'struct' not in words and 'enum' not in words:
                                kw = w
                                break
                    if kw:
                        # drop attributes / visibility in front of the keyword
                        k = 0
                        for k, x in enumerate(head):
                            if x.kind == 'ident' and x.text == kw:
                                break
                        hdr = norm_ws(self.text[head[k].start:self.toks[i].start])
                        res.append((hdr, i, close, list(chain)))
                        walk(i + 1, close, chain + [hdr])
                    i = close + 1
                    stmt_start = i
                    continue
                i += 1

        walk(0, len(self.toks), [])
        self._containers = res
        return res

    def _find_container(self, pattern):
        if pattern in ('-', ''):
            return None
        want = norm_ws(pattern)
        hits = [c for c in self.containers() if c[0] == want and not c[3]]
        if not hits:
            hits = [c for c in self.containers() if want in c[0] and not c[3]]
        if len(hits) != 1:
            raise ScanError('%s: container %r matched %d blocks' % (self.rel, pattern, len(hits)))
        return hits[0]

    # ---- functions -----------------------------------------------------------------------
    def find_fn(self, container, name):
        c = self._find_container(container)
        if c is None:
            lo, hi = 0, len(self.toks)
        else:
            lo, hi = c[1] + 1, c[2]
        i = lo
        hits = []
        while i < hi:
            t = self.toks[i]
            if t.kind == 'punct' and t.text in '{([':
                # skip nested blocks: items we look for are direct children
                i = self.pair[i] + 1
                continue
            if t.kind == 'ident' and t.text == 'fn' and i + 1 < hi and self.toks[i + 1].text == name:
                hits.append(i)
            i += 1
        if len(hits) != 1:
            raise ScanError('%s: fn %s in %r matched %d items' % (self.rel, name, container, len(hits)))
        fi = hits[0]
        # modifiers before fn
        si = fi
        while si - 1 >= lo:
            p = self.toks[si - 1]
            if p.kind == 'ident' and p.text in ('pub', 'const', 'unsafe', 'async', 'extern'):
                si -= 1
                continue
            if p.kind == 'punct' and p.text == ')' and self.pair[si - 1] - 1 >= lo \
                    and self.toks[self.pair[si - 1] - 1].text == 'pub':
                si = self.pair[si - 1] - 1
                continue
            break
        # body: first `{` after fn at depth 0 (skipping parens/brackets)
        j = fi
        body_open = None
        while j < hi:
            t = self.toks[j]
            if t.kind == 'punct' and t.text in '([':
                j = self.pair[j] + 1
                continue
            if t.kind == 'punct' and t.text == '{':
                body_open = j
                break
            if t.kind == 'punct' and t.text == ';':
                raise ScanError('%s: fn %s has no body' % (self.rel, name))
            j += 1
        if body_open is None:
            raise ScanError('%s: fn %s body not found' % (self.rel, name))
        body_close = self.pair[body_open]
        start = self.toks[si].start
        fn_off = self.toks[fi].start
        bs = self.toks[body_open].start
        be = self.toks[body_close].end
        # visibility = tokens from si up to first of const/unsafe/async/extern/fn
        vi = si
        while self.toks[vi].text not in ('const', 'unsafe', 'async', 'extern', 'fn'):
            vi += 1
        vis = self.text[start:self.toks[vi].start].strip()
        sig = self.text[self.toks[vi].start:bs].rstrip()
        return FnItem(self.rel, container, name, start, fn_off, bs, bs, be, vis, sig,
                      self.text[bs:be], self.line_of(fn_off), self.text[start:be])

    # ---- types -----------------------------------------------------------------------------
    def find_type(self, kind, name):
        hits = []
        depth_skip = 0
        i, hi = 0, len(self.toks)
        while i < hi:
            t = self.toks[i]
            if t.kind == 'punct' and t.text == '{':
                # only top level types
                i = self.pair[i] + 1
                continue
            if t.kind == 'ident' and t.text == kind and i + 1 < hi and self.toks[i + 1].text == name:
                hits.append(i)
            i += 1
        if len(hits) != 1:
            raise ScanError('%s: %s %s matched %d items' % (self.rel, kind, name, len(hits)))
        ki = hits[0]
        si = ki
        while si - 1 >= 0:
            p = self.toks[si - 1]
            if p.kind == 'ident' and p.text == 'pub':
                si -= 1
                continue
            if p.kind == 'punct' and p.text == ')' and self.toks[self.pair[si - 1] - 1].text == 'pub':
                si = self.pair[si - 1] - 1
                continue
            break
        # attributes in front (collected for the log, not copied)
        attrs = []
        ai = si
        while ai - 1 >= 0 and self.toks[ai - 1].text == ']':
            o = self.pair[ai - 1]
            if o - 1 >= 0 and self.toks[o - 1].text == '#':
                attrs.insert(0, self.text[self.toks[o - 1].start:self.toks[ai - 1].end])
                ai = o - 1
            else:
                break
        # end: matching brace of first `{`, or `;` (tuple / unit struct)
        j = ki
        end = None
        while j < hi:
            t = self.toks[j]
            if t.kind == 'punct' and t.text in '([':
                j = self.pair[j] + 1
                continue
            if t.kind == 'punct' and t.text == '{':
                end = self.toks[self.pair[j]].end
                if kind in ('const', 'static'):
                    # `const X: T = S { .. };` -- continue to the terminating `;`
                    j = self.pair[j] + 1
                    continue
                break
            if t.kind == 'punct' and t.text == ';':
                end = t.end
                break
            j += 1
        start = self.toks[si].start
        vis = self.text[start:self.toks[ki].start].strip()
        return TypeItem(self.rel, kind, name, start, end, vis, self.text[start:end],
                        self.line_of(start), attrs)

    def top_level_consts(self):
        """names of all `const NAME` items at the top level of the file"""
        names = []
        i, hi = 0, len(self.toks)
        while i < hi:
            t = self.toks[i]
            if t.kind == 'punct' and t.text == '{':
                i = self.pair[i] + 1
                continue
            if t.kind == 'ident' and t.text == 'const' and i + 2 < hi and self.toks[i + 1].kind == 'ident' \
                    and self.toks[i + 2].text == ':':
                names.append(self.toks[i + 1].text)
            i += 1
        return names

    # ---- helpers on a body -----------------------------------------------------------------
    def loops_in(self, lo_off, hi_off):
        """offsets (kw_offset, keyword, brace_offset, in_offset_or_None) of every
        for/while/loop between two offsets, in source order"""
        res = []
        idxs = [k for k, t in enumerate(self.toks) if lo_off <= t.start < hi_off]
        for k in idxs:
            t = self.toks[k]
            if t.kind == 'ident' and t.text in ('for', 'while', 'loop'):
                # `for` in `impl X for Y` / HRTB does not occur inside bodies we extract
                j = k + 1
                in_off = None
                while j < len(self.toks):
                    u = self.toks[j]
                    if u.kind == 'punct' and u.text in '([':
                        j = self.pair[j] + 1
                        continue
                    if t.text == 'for' and in_off is None and u.kind == 'ident' and u.text == 'in':
                        in_off = u.end
                    if u.kind == 'punct' and u.text == '{':
                        res.append((t.start, t.text, u.start, in_off))
                        break
                    j += 1
        return res
