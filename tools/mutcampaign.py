#!/usr/bin/env python3
"""operator-level mutation campaign against lane V (contract strength measurement).

For every function a unit extracts (file + line range from the generator's log) apply small syntactic mutations to a
scratch copy of the repository sources, regenerate the unit and run Verus.  killed = Verus reports a failed obligation;
rejected = the mutant does not type-check / leaves the subset / loses an anchor (not informative); SURVIVED = the mutated
body still verifies: either an equivalent mutant or a contract that is too weak.  Usage:
    tools/mutcampaign.py <repo-snapshot> [unit ...]      (writes build/mutation/<unit>.json and prints a summary)
"""
import json, os, re, shutil, subprocess, sys, tempfile, concurrent.futures as cf
HERE = os.path.dirname(os.path.abspath(__file__)); VERIF = os.path.dirname(HERE)
sys.path.insert(0, HERE)
import gen_unit

OPS = [
    (r' < ', ' <= '), (r' <= ', ' < '), (r' > ', ' >= '), (r' >= ', ' > '), (r' == ', ' != '), (r' != ', ' == '),
    (r' \+ ', ' - '), (r' - ', ' + '), (r' && ', ' || '), (r' \|\| ', ' && '),
    (r' \+= ', ' -= '), (r'\btrue\b', 'false'), (r'\bfalse\b', 'true'),
    (r' >> ', ' << '), (r' << ', ' >> '), (r' % ', ' / '), (r' \* ', ' + '), (r' & ', ' | '), (r' \| ', ' & '),
    (r'\.first\(\)', '.last()'), (r'\.last\(\)', '.first()'), (r'\.\.=', '..'), (r'\[(\w+)\]', r'[\1 + 1]'),
    (r'\.saturating_sub\(', '.wrapping_sub('), (r'\.min\(', '.max('), (r'\.max\(', '.min('), (r' as u32', ' as u16'), (r' as u64', ' as u32 as u64'),
    (r'\.is_some\(\)', '.is_none()'), (r'\.is_none\(\)', '.is_some()'), (r'\.is_empty\(\)', '.len() > 0'),
]
PAIRS = [('in_count', 'out_count'), ('inputs', 'outputs'), ('txin_writer', 'txout_writer'), ('block_writer', 'tx_writer'), ('prev_hash', 'merkle_root'),
         ('version', 'locktime'), ('timestamp', 'bits'), ('bits', 'nonce'), ('script_sig', 'script_pubkey'), ('min_height', 'max_height'),
         ('tx_count', 'in_count'), ('block_height', 'value'), ('n_tx_inputs', 'n_tx_outputs'), ('n_tx_total_fee', 'n_tx_total_volume'),
         ('tx_biggest_value', 'tx_biggest_size'), ('blk_index', 'data_offset'), ('height', 'status'), ('read_tx_inputs', 'read_tx_outputs'),
         ('coinbase_branch', 'blockchain_branch'), ('block_hash', 'txid_str'), ('txid', 'index'), ('n_tx_types', 'tx_first_occs')]
for (a_, b_) in PAIRS:
    OPS.append((r'\b%s\b' % a_, b_))
    OPS.append((r'\b%s\b' % b_, a_))
NUM = re.compile(r'(?<![\w.])(0x[0-9a-fA-F]+|\d+)(?:u8|u16|u32|u64|usize)?(?![\w.])')

def strip_strings(line):
    return re.sub(r'"(?:\\.|[^"\\])*"', lambda m: '"' + ' ' * (len(m.group(0)) - 2) + '"', line)

def mutants_for(lines, lo, hi):
    """yield (lineno, description, new_line) for source lines lo..hi (1-based, inclusive)"""
    for ln in range(lo, hi + 1):
        raw = lines[ln - 1]
        code = raw.split('//')[0]
        if not code.strip() or re.match(r'\s*(debug|info|trace|warn|error)!', code) or code.strip().startswith('#['):
            continue
        masked = strip_strings(code)
        for pat, rep in OPS:
            for m in re.finditer(pat, masked):
                new = raw[:m.start()] + m.expand(rep) + raw[m.end():]
                yield ln, '%s -> %s' % (pat.strip().replace('\\', ''), rep.strip()), new
        for m in NUM.finditer(masked):
            tok = m.group(1)
            v = int(tok, 16) if tok.startswith('0x') else int(tok)
            nv = ('0x%x' % (v + 1)) if tok.startswith('0x') else str(v + 1)
            new = raw[:m.start(1)] + nv + raw[m.end(1):]
            yield ln, 'const %s -> %s' % (tok, nv), new
        # statement deletion: a call statement or compound assignment on one line
        if re.match(r'\s*[\w.\[\]]+(\.\w+\(.*\)|\s*(\+=|-=|\^=|=)\s*.+);\s*$', code) and not re.match(r'\s*(let|return)\b', code):
            yield ln, 'delete statement', re.match(r'\s*', raw).group(0) + '// deleted'

def run_one(args):
    unit, snap, rel, ln, desc, new, idx = args
    work = tempfile.mkdtemp(prefix='mut_%s_' % unit, dir='/tmp')
    try:
        shutil.copytree(os.path.join(snap, 'src'), os.path.join(work, 'src'))
        p = os.path.join(work, rel)
        ls = open(p).read().split('\n')
        old = ls[ln - 1]
        ls[ln - 1] = new
        open(p, 'w').write('\n'.join(ls))
        out_rs = os.path.join(work, unit + '.rs')
        try:
            log = gen_unit.generate(os.path.join(VERIF, 'units', unit + '.rs'), work, out_rs, os.path.join(work, 'm.json'))
        except Exception as e:
            return dict(file=rel, line=ln, op=desc, old=old.strip(), new=new.strip(), status='rejected', why='generator: %s' % str(e)[:80])
        lost = [x for it in (log or {}).get('items', []) for x in (it.get('lost_anchors') or [])]
        pr = subprocess.run(['verus', out_rs, '--output-json'], cwd=work, capture_output=True, text=True, timeout=600)
        try:
            js = json.loads(pr.stdout)
        except Exception:
            return dict(file=rel, line=ln, op=desc, old=old.strip(), new=new.strip(), status='rejected', why='verus: no result (%s)' % pr.stderr.strip().split('\n')[0][:100])
        vr = js.get('verification-results', {})
        if vr.get('encountered-vir-error') or (vr.get('encountered-error') and vr.get('errors', 0) == 0):
            st, why = 'rejected', 'verus rejected the text'
        elif vr.get('errors', 0) > 0:
            st, why = 'killed', '%d function(s) fail' % vr['errors']
        elif lost:
            st, why = 'rejected', 'anchor lost: %s' % lost[0][:60]
        else:
            st, why = 'SURVIVED', ''
        return dict(file=rel, line=ln, op=desc, old=old.strip(), new=new.strip(), status=st, why=why)
    except subprocess.TimeoutExpired:
        return dict(file=rel, line=ln, op=desc, old='', new=new.strip(), status='rejected', why='timeout')
    finally:
        shutil.rmtree(work, ignore_errors=True)

def main():
    snap = sys.argv[1]
    units = sys.argv[2:] or [os.path.basename(f)[:-3] for f in sorted(os.listdir(os.path.join(VERIF, 'units'))) if f.endswith('.rs')]
    os.makedirs(os.path.join(VERIF, 'build', 'mutation'), exist_ok=True)
    total = {}
    for unit in units:
        work = tempfile.mkdtemp(prefix='mutgen_', dir='/tmp')
        try:
            log = gen_unit.generate(os.path.join(VERIF, 'units', unit + '.rs'), snap, os.path.join(work, 'u.rs'), os.path.join(work, 'u.json'))
        finally:
            shutil.rmtree(work, ignore_errors=True)
        jobs, seen = [], set()
        for it in log.get('items', []):
            if it.get('kind') != 'fn' or it.get('abstracted'):
                continue
            rel, lo, hi = it['file'], it['line'], it.get('end_line') or it['line']
            lines = open(os.path.join(snap, rel)).read().split('\n')
            # skip the signature line(s): start at the first line containing '{' of the body
            for (ln, desc, new) in mutants_for(lines, lo, hi):
                key = (rel, ln, new)
                if key in seen or new == lines[ln - 1]:
                    continue
                seen.add(key)
                jobs.append((unit, snap, rel, ln, desc, new, len(jobs)))
        res = []
        with cf.ThreadPoolExecutor(max_workers=int(os.environ.get('MUT_JOBS', '14'))) as ex:
            for r in ex.map(run_one, jobs):
                res.append(r)
        cnt = {}
        for r in res:
            cnt[r['status']] = cnt.get(r['status'], 0) + 1
        total[unit] = cnt
        json.dump({'unit': unit, 'counts': cnt, 'mutants': res}, open(os.path.join(VERIF, 'build', 'mutation', unit + '.json'), 'w'), indent=1)
        print(unit, cnt, flush=True)
        for r in res:
            if r['status'] == 'SURVIVED':
                print('   SURVIVED %s:%d  [%s]  %s   =>   %s' % (r['file'].split('/')[-1], r['line'], r['op'], r['old'][:90], r['new'][:90]), flush=True)
    json.dump(total, open(os.path.join(VERIF, 'build', 'mutation', 'SUMMARY.json'), 'w'), indent=1)

if __name__ == '__main__':
    main()
