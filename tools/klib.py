"""klib -- lane K: Kani harnesses on a scratch copy of the real crate.

assemble(repo): copies /repo/{src,Cargo.toml,Cargo.lock} to build/kani-src (content-compared, so an
unchanged file keeps its mtime and cargo does not rebuild) and appends, to the END of each source
file that has a harness file kani/<path with __>.rs, the block

    #[cfg(kani)]
    mod verif_kani { use super::*; <harness file> }

Nothing else in the copy is touched and /repo itself is never written.
"""
import json
import os
import re
import shutil
import subprocess
import time

HERE = os.path.dirname(os.path.abspath(__file__))
VERIF = os.path.dirname(HERE)
KSRC = os.path.join(VERIF, 'build', 'kani-src')
KTARGET = os.path.join(VERIF, 'build', 'kani-target')
KDIR = os.path.join(VERIF, 'kani')

# harness -> (class, bound text)   class: complete | contract | bounded
CLASSES = {}


def _load_classes():
    p = os.path.join(KDIR, 'classes.json')
    if os.path.exists(p):
        CLASSES.update(json.load(open(p)))


def _write_if_changed(path, data):
    if os.path.exists(path):
        with open(path, 'rb') as f:
            if f.read() == data:
                return False
    os.makedirs(os.path.dirname(path), exist_ok=True)
    with open(path, 'wb') as f:
        f.write(data)
    return True


def assemble(repo):
    harness_for = {}
    for fn in sorted(os.listdir(KDIR)):
        if fn.endswith('.rs'):
            rel = 'src/' + fn[:-3].replace('__', '/') + '.rs'
            harness_for[rel] = os.path.join(KDIR, fn)
    wanted = set()
    missing = []
    for root, _dirs, files in os.walk(os.path.join(repo, 'src')):
        for f in files:
            full = os.path.join(root, f)
            rel = os.path.relpath(full, repo)
            data = open(full, 'rb').read()
            if rel in harness_for:
                h = open(harness_for[rel], 'rb').read()
                data = data + b'\n#[cfg(kani)]\n#[allow(unused_imports, dead_code)]\nmod verif_kani {\n    use super::*;\n' + h + b'\n}\n'
            _write_if_changed(os.path.join(KSRC, rel), data)
            wanted.add(rel)
    for rel in harness_for:
        if rel not in wanted:
            missing.append(rel)
    for f in ('Cargo.toml', 'Cargo.lock'):
        _write_if_changed(os.path.join(KSRC, f), open(os.path.join(repo, f), 'rb').read())
    # drop files that no longer exist in the repo
    for root, _dirs, files in os.walk(os.path.join(KSRC, 'src')):
        for f in files:
            rel = os.path.relpath(os.path.join(root, f), KSRC)
            if rel not in wanted:
                os.remove(os.path.join(root, f))
    return missing


def _env():
    e = dict(os.environ)
    e['CARGO_NET_OFFLINE'] = 'true'
    e['CARGO_TARGET_DIR'] = KTARGET
    return e


def _parse(out, harnesses):
    """split cargo-kani output (terse, possibly interleaved `Thread N:` blocks) into per-harness results"""
    res = {}
    cur = {}            # thread id -> harness short name
    active = None       # harness whose result block is being read
    blocks = {}

    def blk(name):
        return blocks.setdefault(name, [])
    for line in out.split('\n'):
        m = re.match(r'^(?:Thread (\d+): )?Checking harness (\S+?)\.\.\.', line)
        if m:
            t = m.group(1) or '-'
            short = m.group(2).split('::')[-1]
            cur[t] = short
            blk(short).append(line)
            active = short if m.group(1) is None else None
            continue
        m = re.match(r'^Thread (\d+):\s?(.*)$', line)
        if m:
            t = m.group(1)
            active = cur.get(t)
            if active:
                blk(active).append(m.group(2))
            continue
        if re.match(r'^(Manual Harness Summary|Complete - |Verification failed for)', line):
            active = None
        if active:
            blk(active).append(line)
    for short, lines in blocks.items():
        b = '\n'.join(lines)
        r = {}
        m = re.search(r'VERIFICATION:- (SUCCESSFUL|FAILED)', b)
        r['verdict'] = m.group(1) if m else None
        m = re.search(r'\*\* (\d+) of (\d+) failed', b)
        if m:
            r['failed'] = int(m.group(1)); r['checks'] = int(m.group(2))
        r['failed_checks'] = re.findall(r'(?m)^Failed Checks: (.*)$', b)
        m = re.search(r'Verification Time: ([0-9.]+)s', b)
        r['cbmc_s'] = float(m.group(1)) if m else None
        r['stubs'] = re.findall(r'(?m)^\s*- Stub: (.*)$', b)
        r['timeout'] = bool(re.search(r'timed out|TIMEOUT|timeout', b))
        r['tail'] = b[-1500:]
        res[short] = r
    failed_summary = set(x.split('::')[-1] for x in re.findall(r'Verification failed for - (\S+)', out))
    for short in failed_summary:
        if short in res and res[short]['verdict'] is None:
            res[short]['verdict'] = 'FAILED'
    return res


def _run_harnesses_unlocked(harnesses, repo, tier='quick', timeout_s=None, jobs=12):
    _load_classes()
    t0 = time.time()
    missing = assemble(repo)
    results = []
    if missing:
        return [{'harness': h, 'status': 'undecided', 'class': CLASSES.get(h, ['bounded', '?'])[0],
                 'reason': 'source file for harness module missing: %s' % ', '.join(missing)} for h in harnesses]
    per = timeout_s or (240 if tier == 'quick' else 900)
    cmd = ['cargo', 'kani', '-Z', 'function-contracts', '-Z', 'stubbing', '-Z', 'unstable-options',
           '--harness-timeout', '%ds' % per, '--output-format', 'terse', '-j', str(jobs)]
    for h in harnesses:
        cmd += ['--harness', h]
    try:
        p = subprocess.run(cmd, cwd=KSRC, env=_env(), capture_output=True, text=True, timeout=per * 3 + 600)
        out = p.stdout + '\n' + p.stderr
    except subprocess.TimeoutExpired as e:
        out = (e.stdout or b'').decode('utf-8', 'replace') if isinstance(e.stdout, bytes) else (e.stdout or '')
        out += '\nKLIB: overall timeout'
    with open(os.path.join(VERIF, 'build', 'kani-last.log'), 'w') as f:
        f.write(out)
    parsed = _parse(out, harnesses)
    compile_error = re.search(r'(?m)^error(\[E\d+\])?:', out) and not parsed
    for h in harnesses:
        cls, bound = (CLASSES.get(h) or ['bounded', 'unclassified'])[:2]
        r = {'harness': h, 'class': cls, 'bound': bound, 'cmd': ' '.join(cmd[:12]) + ' --harness ' + h,
             'wall_s': round(time.time() - t0, 1)}
        pr = parsed.get(h)
        if compile_error:
            r.update({'status': 'undecided', 'reason': 'harness crate does not compile: ' +
                      '; '.join(re.findall(r'(?m)^error.*$', out)[:3])})
        elif pr is None:
            r.update({'status': 'undecided', 'reason': 'no result for harness in Kani output (see build/kani-last.log)'})
        elif pr['verdict'] == 'SUCCESSFUL':
            r.update({'status': 'ok', 'checks': pr.get('checks'), 'cbmc_s': pr.get('cbmc_s'), 'stubs': pr.get('stubs', [])})
            if not pr.get('checks'):
                r.update({'status': 'undecided', 'reason': 'zero checks (vacuity guard)'})
        elif pr['verdict'] == 'FAILED':
            fc = pr.get('failed_checks', [])
            only_unwind = fc and all('unwinding assertion' in x for x in fc)
            if pr.get('timeout') or not fc:
                r.update({'status': 'undecided', 'reason': 'timeout / no failed check reported', 'tail': pr['tail']})
            elif only_unwind:
                r.update({'status': 'undecided', 'reason': 'unwinding bound too small: ' + '; '.join(fc)})
            else:
                r.update({'status': 'failed', 'failed_checks': fc, 'checks': pr.get('checks'), 'tail': pr['tail'],
                          'stubs': pr.get('stubs', [])})
                r['playback'] = playback(h)
        else:
            r.update({'status': 'undecided', 'reason': 'no verdict (timeout or crash)', 'tail': pr['tail']})
        results.append(r)
    return results


def playback(h):
    """re-run a failed harness with concrete playback to obtain the counterexample values"""
    cmd = ['cargo', 'kani', '-Z', 'function-contracts', '-Z', 'stubbing', '-Z', 'concrete-playback',
           '--concrete-playback=print', '--output-format', 'terse', '--harness', h]
    try:
        p = subprocess.run(cmd, cwd=KSRC, env=_env(), capture_output=True, text=True, timeout=600)
    except subprocess.TimeoutExpired:
        return {'error': 'concrete playback timed out'}
    out = p.stdout
    m = re.search(r'```\n(.*?)```', out, re.S)
    test = m.group(1) if m else None
    if not test:
        return {'error': 'no concrete playback produced', 'reproduced': False}
    vals = re.findall(r'//\s*(.*)\n\s*vec!\[(.*?)\]', test)
    return {'kani_generated_test': test[:6000], 'concrete_values': [{'value': v[0], 'bytes': v[1]} for v in vals][:40],
            'how': 'cargo kani --concrete-playback=print (counterexample of the failed check, bit-precise on the real crate)'}


def warm(repo='/repo'):
    """setup: build the dependency graph once so that later runs only recompile the crate"""
    assemble(repo)
    cmd = ['cargo', 'kani', '-Z', 'function-contracts', '-Z', 'stubbing', '--only-codegen']
    p = subprocess.run(cmd, cwd=KSRC, env=_env(), capture_output=True, text=True, timeout=1800)
    return p.returncode



class _lane_lock:
    """one run of this lane at a time (several checks may be started in parallel; they share the scratch crate)"""
    def __enter__(self):
        import fcntl
        os.makedirs(os.path.join(VERIF, 'build'), exist_ok=True)
        self.f = open(os.path.join(VERIF, 'build', '.kani.lock'), 'w')
        fcntl.flock(self.f, fcntl.LOCK_EX)
        return self
    def __exit__(self, *a):
        import fcntl
        fcntl.flock(self.f, fcntl.LOCK_UN)
        self.f.close()


def run_harnesses(*args, **kwargs):
    with _lane_lock():
        return _run_harnesses_unlocked(*args, **kwargs)


if __name__ == '__main__':
    import sys
    rs = run_harnesses(sys.argv[1:], '/repo', 'thorough')
    for r in rs:
        print(json.dumps({k: v for k, v in r.items() if k not in ('tail', 'playback')}))
