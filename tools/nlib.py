"""nlib -- lane N: native replay of contracts on the real crate (bounded stand-in / counterexample search).

assemble(repo): copy /repo/{src,Cargo.toml,Cargo.lock} to build/native-src and append to the END of each
source file that has a file native/<path with __>.rs the block
    #[cfg(test)] mod verif_native { use super::*; use crate::verif_kit::*; <file> }
(native/main.rs becomes `#[cfg(test)] pub mod verif_kit { .. }` in src/main.rs).  /repo is never written.
Suites are ordinary #[test] functions named <prop>_<suite>; they print
    NATIVE-FAIL suite=.. contract=.. input=[..] got=[..] want=[..]     for every violated contract instance
    NATIVE-DONE suite=.. cases=N failures=K
"""
import json
import os
import re
import subprocess
import time

HERE = os.path.dirname(os.path.abspath(__file__))
VERIF = os.path.dirname(HERE)
NSRC = os.path.join(VERIF, 'build', 'native-src')
NTARGET = os.path.join(VERIF, 'build', 'native-target')
NDIR = os.path.join(VERIF, 'native')


def _write_if_changed(path, data):
    if os.path.exists(path):
        with open(path, 'rb') as f:
            if f.read() == data:
                return False
    os.makedirs(os.path.dirname(path), exist_ok=True)
    with open(path, 'wb') as f:
        f.write(data)
    return True


def _kit_imports():
    """explicit (non-glob) imports of every public kit item: an explicit import shadows `use super::*`, so a private helper
    of the file under test that happens to share a name with a kit function (hex, fail, check, ...) cannot make the harness ambiguous"""
    txt = open(os.path.join(VERIF, 'native', 'main.rs')).read()
    names = sorted(set(re.findall(r'(?m)^pub (?:fn|struct|enum|const|static|type) (\w+)', txt)))
    return ('use crate::verif_kit::{%s};' % ', '.join(names)).encode()


def assemble(repo, skip=()):
    """skip: source files whose native module is left out (the module does not compile against this tree)"""
    add = {}
    for fn in sorted(os.listdir(NDIR)):
        if fn.endswith('.rs'):
            add['src/' + fn[:-3].replace('__', '/') + '.rs'] = os.path.join(NDIR, fn)
    wanted, missing = set(), []
    for root, _d, files in os.walk(os.path.join(repo, 'src')):
        for f in files:
            full = os.path.join(root, f)
            rel = os.path.relpath(full, repo)
            data = open(full, 'rb').read()
            if rel in add and rel not in skip:
                h = open(add[rel], 'rb').read()
                if rel == 'src/main.rs':
                    data += b'\n#[cfg(test)]\n#[allow(unused_imports, dead_code)]\npub mod verif_kit {\n' + h + b'\n}\n'
                else:
                    data += b'\n#[cfg(test)]\n#[allow(unused_imports, dead_code, unused_variables)]\npub(crate) mod verif_native {\n    use super::*;\n    use crate::verif_kit::*;\n    ' + _kit_imports() + b'\n    use std::sync::{Arc, Mutex};\n' + h + b'\n}\n'
            _write_if_changed(os.path.join(NSRC, rel), data)
            wanted.add(rel)
    for rel in add:
        if rel not in wanted:
            missing.append(rel)
    for f in ('Cargo.toml', 'Cargo.lock'):
        _write_if_changed(os.path.join(NSRC, f), open(os.path.join(repo, f), 'rb').read())
    for root, _d, files in os.walk(os.path.join(NSRC, 'src')):
        for f in files:
            rel = os.path.relpath(os.path.join(root, f), NSRC)
            if rel not in wanted:
                os.remove(os.path.join(root, f))
    return missing


def _env(seed, tier):
    e = dict(os.environ)
    e['CARGO_NET_OFFLINE'] = 'true'
    e['CARGO_TARGET_DIR'] = NTARGET
    e['VERIF_SEED'] = str(seed)
    e['VERIF_TIER'] = tier
    e['RUST_BACKTRACE'] = '0'
    return e


def _run_suites_unlocked(prefixes, repo, tier='quick', seed=0, timeout_s=None):
    """runs every #[test] whose name starts with one of `prefixes` inside the verif_native modules
    (one retry if the run hits its time limit: a hang must not turn into a verdict)"""
    timeout_s = timeout_s or (300 if tier == 'quick' else 1500)
    r = _run_suites(prefixes, repo, tier, seed, timeout_s)
    if r.get('timed_out'):
        r = _run_suites(prefixes, repo, tier, seed, timeout_s * 2)
    return r


def _run_suites(prefixes, repo, tier, seed, timeout_s, _skip=()):
    t0 = time.time()
    missing = assemble(repo, skip=_skip)
    res = {'status': 'undecided', 'suites': [], 'fails': [], 'reason': None, 'wall_s': 0, 'cmd': None}
    if missing:
        res['reason'] = 'source file for native module missing: %s' % ', '.join(missing)
        return res
    # one cargo invocation; libtest filters are substring matches, several may be given
    filters = ['verif_native::%s' % p for p in prefixes]
    cmd = ['cargo', 'test', '--offline', '--bin', 'rusty-blockparser', '--no-fail-fast', '--'] + filters + \
          ['--nocapture', '--test-threads', '8']
    res['cmd'] = ' '.join(cmd)
    try:
        p = subprocess.run(cmd, cwd=NSRC, env=_env(seed, tier), capture_output=True, text=True, timeout=timeout_s)
        out = p.stdout + '\n' + p.stderr
        rc = p.returncode
    except subprocess.TimeoutExpired as e:
        out = ((e.stdout or b'').decode('utf-8', 'replace') if isinstance(e.stdout, bytes) else (e.stdout or '')) + '\nNLIB: timeout'
        rc = -9
        res['timed_out'] = True
    with open(os.path.join(VERIF, 'build', 'native-last.log'), 'w') as f:
        f.write(out)
    res['wall_s'] = round(time.time() - t0, 1)
    killed = re.search(r'\(signal: (\d+), (SIG\w+)', out)
    if not killed and 'test result' not in out and re.search(r'(?m)^running \d+ tests?', out):
        # the test binary started and then ended without libtest's summary: the code under test ended the process
        # (std::process::exit / abort inside the real code) -- the suites that did not report DONE are unfinished
        killed = re.search(r"\((exit status): (\d+)\)", out)
    if re.search(r'(?m)^error(\[E\d+\])?:', out) and 'test result' not in out and not killed:
        # the harness does not compile against this tree.  If the errors sit in files that carry a native module (and not in
        # the kit), leave those modules out and run the rest once: their suites are reported as not compiled (undecided).
        bad = sorted(set(re.findall(r'(?m)^\s*--> (src/[\w/]+\.rs):\d+', out)))
        natives = set('src/' + fn[:-3].replace('__', '/') + '.rs' for fn in os.listdir(NDIR) if fn.endswith('.rs'))
        drop = [b for b in bad if b in natives and b != 'src/main.rs']
        if drop and not _skip and 'src/main.rs' not in bad:
            r2 = _run_suites(prefixes, repo, tier, seed, timeout_s, _skip=tuple(drop))
            r2['not_compiled'] = drop
            note = 'native modules left out (do not compile against this tree): ' + ', '.join(drop)
            r2['reason'] = (r2.get('reason') + '; ' if r2.get('reason') else '') + note
            if r2['status'] == 'ok':
                r2['status'] = 'ok'          # the suites that ran found nothing; the others are named in `reason`
            return r2
        res['reason'] = 'native harness does not compile against this tree: ' + '; '.join(re.findall(r'(?m)^error.*$', out)[:3])
        return res
    for m in re.finditer(r'NATIVE-DONE suite=(\S+) cases=(\d+) failures=(\d+)', out):
        res['suites'].append({'suite': m.group(1), 'cases': int(m.group(2)), 'failures': int(m.group(3))})
    for m in re.finditer(r'NATIVE-FAIL suite=(\S+) contract=(\S+) input=\[(.*?)\] got=\[(.*?)\] want=\[(.*?)\]\s*$', out, re.M):
        res['fails'].append({'suite': m.group(1), 'contract': m.group(2), 'input': m.group(3), 'got': m.group(4), 'want': m.group(5)})
    if killed:
        # the real code took the whole test process down (abort / process::exit / stack overflow): every suite of this run
        # that did not report DONE is unfinished; name them through `--list`
        try:
            lp = subprocess.run(['cargo', 'test', '--offline', '--bin', 'rusty-blockparser', '--'] + filters + ['--list'],
                                cwd=NSRC, env=_env(seed, tier), capture_output=True, text=True, timeout=300)
            names = [m.split('::')[-1] for m in re.findall(r'(?m)^(\S+): test$', lp.stdout)]
        except Exception:
            names = []
        done0 = set(m.group(1) for m in re.finditer(r'NATIVE-DONE suite=(\S+)', out))
        res['killed'] = {'signal': (killed.group(2) if killed.group(1).isdigit() else 'exit status ' + killed.group(2)), 'unfinished': [n for n in names if n not in done0]}
    # tests that died without a DONE line (panic inside the real code, process::exit, abort)
    ran = set(re.findall(r'(?m)^test \S*verif_native::(\S+) \.\.\. (?:ok|FAILED)', out))
    failed = set(re.findall(r'(?m)^test \S*verif_native::(\S+) \.\.\. FAILED', out))
    done = set(s['suite'] for s in res['suites'])
    res['aborted'] = sorted(x for x in failed if x not in done)
    if res.get('killed'):
        res['aborted'] = sorted(set(res['aborted']) | set(res['killed']['unfinished'] or ['(process %s)' % res['killed']['signal']]))
    panics = re.findall(r"(?m)^thread '.*?verif_native::(\S+?)' .*?panicked at (.*)$", out)
    res['panics'] = [{'suite': a, 'at': b[:200]} for a, b in panics if a in res['aborted']]
    m = re.search(r'test result: .*? (\d+) passed; (\d+) failed', out)
    if not m and rc != 0 and not res['suites'] and not res.get('killed'):
        res['reason'] = 'native run produced no result (process aborted?): ' + out[-400:].replace('\n', ' | ')
        res['status'] = 'failed' if 'process::exit' in out else 'undecided'
        return res
    if not res['suites'] and not res['aborted']:
        res['reason'] = 'no native suite matched %s' % ','.join(prefixes)
        return res
    res['status'] = 'failed' if (res['fails'] or res['aborted']) else 'ok'
    if res.get('timed_out'):
        # suites that did not finish are unknown, never a verdict
        res['status'] = 'failed' if res['fails'] else 'undecided'
        res['reason'] = 'native run hit its time limit (%ds); %d suite(s) finished' % (timeout_s, len(res['suites']))
    return res


def warm(repo='/repo'):
    assemble(repo)
    cmd = ['cargo', 'test', '--offline', '--bin', 'rusty-blockparser', '--no-run']
    p = subprocess.run(cmd, cwd=NSRC, env=_env(0, 'quick'), capture_output=True, text=True, timeout=1800)
    return p.returncode



class _lane_lock:
    """one run of this lane at a time (several checks may be started in parallel; they share the scratch crate)"""
    def __enter__(self):
        import fcntl
        os.makedirs(os.path.join(VERIF, 'build'), exist_ok=True)
        self.f = open(os.path.join(VERIF, 'build', '.native.lock'), 'w')
        fcntl.flock(self.f, fcntl.LOCK_EX)
        return self
    def __exit__(self, *a):
        import fcntl
        fcntl.flock(self.f, fcntl.LOCK_UN)
        self.f.close()


def run_suites(*args, **kwargs):
    with _lane_lock():
        return _run_suites_unlocked(*args, **kwargs)


if __name__ == '__main__':
    import sys
    r = run_suites(sys.argv[1:], '/repo', os.environ.get('VERIF_TIER', 'quick'))
    print(json.dumps(r, indent=1)[:6000])
