"""Per-property configuration of the checks: which Verus units and which Kani harnesses decide
a property, what stays trusted.  (The deciding text -- contracts, invariants, lemmas -- lives in
units/*.rs and kani/*.rs; this file only wires them to property ids.)"""

COMMON_TRUSTED = [
    'Verus 0.2026.09.13 (VIR/AIR encoding, Z3) and Kani 0.68 / CBMC 6.11 themselves',
    'extraction rules D1-D6, idioms I1-I29, A1 of DESIGN.md 2.1, 11.2 and 11.9 (each application listed under assumptions) (self-checked each run: erase(generated)==repo text)',
    'machine model: usize = 64 bit; Verus integers mathematical with explicit overflow obligations',
]

PROPS = {
    'C02': {
        'units': ['driver', 'chainindex'],
        'native': ['c02_'],
        'kani_quick': [],
        'kani_thorough': [],
        'trusted': [
            'ChainIndex::new is under contract (unit chainindex: max_height == min(end, tip), trimmed index == start-1..=max_height, per-file maxima) '
            'through idioms I17 (HashMap iteration = enumeration of all entries in an unspecified order), I18 (keys().max()), I19 (retain by key range); '
            'lemma_driver_precondition derives the driver precondition for an index without holes (input assumption: the active chain has a record at every height)',
            'ChainStorage::get_block contract (contracts/get_block_driver.inc) -- proved on the real body in unit chain',
            'Callback trait contract: each on_block appends exactly its height to the ghost log (definition of "delivered")',
            'print_progress only touches self.stats (external_body)',
            'output file names are formatted in on_complete functions that are out of reach (format!/fs)',
        ],
    },
    'C06': {
        'native': ['c06_'],
        'units': ['script_custom'],
        'kani_quick': ['custom_read_uint_1', 'custom_read_uint_2', 'custom_read_uint_4', 'opcode_class_table', 'opcode_constants', 'types_coin_parameter_table'],
        'kani_thorough': [],
        'trusted': [
            'sha256d, hash160, base58::encode of rust-bitcoin / bitcoin_hashes: uninterpreted primitives (the proof fixes WHICH bytes are hashed / encoded)',
            'Opcode::classify(Legacy) == class_of table (prelude/opcodes.inc) and the all::OP_* constants -- validated by Kani over all 256 opcodes (lane K)',
            'ScriptEvaluator::read_uint contract (iter().enumerate().take() is outside Verus) -- validated by Kani on the real body',
            'String::from_utf8_lossy == lossy_utf8 (uninterpreted); Vec::<u8>::from(&[u8]) copies (admitted FromSpec axiom)',
            'input precondition: script length <= u32::MAX (scripts are read through a u32 length, proved in unit reader)',
        ],
    },
    'C07': {
        'native': ['c07_'],
        'units': ['utxo', 'dumps'],
        'kani_quick': ['tx_outpoint_to_bytes_layout'],
        'kani_thorough': [],
        'trusted': [
            'std HashMap<Vec<u8>,V> insert/remove == Map insert/remove on the key bytes (prelude/hashmap.inc, assumed contract of std)',
            'UnspentCsvDump::on_complete is under contract in unit dumps: header, then exactly one row per map entry carrying txid=key[0..32], index=LE32(key[32..36]), height, value, address (idiom I17: HashMap iteration yields every entry once in an unspecified order); the TEXT of a row is an uninterpreted function row5(format string, field values) (format!/Display trusted, replayed by lane N); fs::rename / the output file name are not under contract',
            'u32::to_le_bytes == vstd spec_u32_to_le_bytes (idiom I11); Vec::extend appends (idiom I7)',
            'input precondition tx_wf: < 2^32 outputs per transaction; counters do not overflow u64',
        ],
    },
    'C08': {
        'native': ['c08_', 'c07_'],
        'units': ['utxo', 'dumps'],
        'kani_quick': [],
        'kani_thorough': [],
        'trusted': [
            'Balances::on_complete is under contract in unit dumps: the aggregation map holds exactly the addresses owning an entry, each bound to the sum of its entries (idioms I15 entry().or_insert(), I17 iteration), one row per address after the header; the TEXT of a row is an uninterpreted function row2(format string, address, balance); precondition pre:address_totals_fit_u64 (no per-address total exceeds u64); fs::rename(..).expect() returns only on success (idiom I24)',
            'std HashMap contract as in C07',
        ],
    },
    'C11': {
        'native': ['c11_'],
        'units': ['xor'],
        'kani_quick': [],
        'kani_thorough': [],
        'trusted': [
            'seek_bufread::BufReader<File> satisfies the Stream/Read/Seek contract (reads deliver the file bytes at the current position; seek(Start(x)) reports x)',
            "std's default Read::read_exact loop on top of read()",
            'BlkFile::open hands the key read from xor.dat to every reader (unit chain); read_xor_key itself is file-system code, trusted',
            'precondition surfaced by Verus: key non-empty (an empty xor.dat would divide by zero -- outside the property: "non-empty key")',
        ],
    },
    'C03': {
        'native': ['c03_'],
        'units': ['index', 'chain'],
        'kani_quick': [],
        'kani_thorough': [],
        'trusted': [
            'rusty-leveldb: DB::new_iter()/advance()/current() enumerate every stored pair in key order (shim in unit index)',
            'std::io::Cursor + byteorder read_u8 (shim); <[u8;32]>::try_from(&[u8]) (idiom I12)',
            'input well-formedness db_wf: b-keys are 33 bytes, varint values < 2^64 (index written by Bitcoin Core)',
            'directory scan BlkFile::from_path / resolve_path / read_xor_key: file-system calls, trusted',
        ],
    },
    'C04': {
        'native': ['c04_'],
        'units': ['index', 'c04goal'],
        'kani_quick': [],
        'kani_thorough': [],
        'trusted': [
            'same as C03 for get_block_index == select(records)',
            'the block index records read by the code (hash, height, status, file, offset) -- the stored header (prev-hash) is never read',
        ],
    },
    'C09': {
        'native': ['c09_'],
        'units': ['chain', 'driver', 'chainindex', 'merkle'],
        'kani_quick': [],
        'kani_thorough': ['utils_merkle_root_1_to_3', 'utils_merkle_root_4_5'],
        'trusted': [
            'utils::merkle_root and Block::compute_merkle_root are under contract in unit merkle (level loop, odd-level duplication, iteration to one hash == merkle_spec of the txids in block order); the three iterator expressions inside them are idioms with ASSUMED contracts: I25 chunks(2).filter(len==2).map(hash of the pair).collect(), I26 [&a[..],&b[..]].concat(), I27 iter().map(|tx| tx.hash).collect() -- replayed on the real code by the bounded Kani harnesses utils_merkle_root_* (thorough tier) and lane N; unit chain uses compute_merkle_root through that contract',
            'SHA-256d collision resistance (soundness clause "any bit flip fails") is a cryptographic assumption, not a contract',
            'ChainIndex::new retains the record of height start-1: proved in unit chainindex (C02,C09:trimmed_index_keeps_start_minus_1_to_max_height)',
            'genesis hash constants per coin: lane N suite c09_published_genesis_hashes (complete over the eight coins; seven values written down independently of the repository, noteblockchain pinned)',
            'process::exit(1) on Err happens before any further on_block/on_complete (unit driver: C02:err_means_no_completion)',
        ],
    },
    'C17': {
        'native': ['c17_'],
        'units': ['chain', 'chainindex'],
        'kani_quick': [],
        'kani_thorough': [],
        'trusted': [
            'max_height_blk_index[f] == max{h : index[h].blk_index == f}: proved for ChainIndex::new in unit chainindex (clause C17:per_file_maximum_heights) under idiom I17 (HashMap iteration yields every entry once)',
            'OS descriptor accounting: a dropped XorReader<BufReader<File>> closes its descriptor (std)',
            'std HashMap::get_mut full-view frame (prelude/hashmap.inc)',
        ],
    },
    'C05': {
        'native': ['c05_'],
        'units': ['script_btc'],
        'kani_quick': ['btc_predicates_match_templates', 'btc_is_p2pk_matches_template', 'btc_from_script_decision', 'btc_is_provable_unspendable_first_byte', 'opcode_class_table'],
        'kani_thorough': [],
        'trusted': [
            'rust-bitcoin Script predicates == the byte templates of unit script_btc (is_op_return/p2pk/p2pkh/p2sh/p2wpkh/p2wsh/p2tr/is_witness_program, Address::from_script decision): validated against the real crate by Kani over all scripts up to the template length (lane K)',
            'Script::is_multisig (rust-bitcoin: OP_m, k pushes, one opcode, OP_CHECKMULTISIG, m <= k, k == n only compared when that opcode is OP_n) and the Instructions iterator: CBMC cannot execute them -- TRUSTED contracts; the numeric-n requirement the property adds is proved on the repository\'s own helper multisig_key_count_is_numeric (repair 5fab036) and replayed by lane N\'s independent template matcher',
            'Address Display / to_string (Base58Check, Bech32, Bech32m text, prefix, checksum): rust-bitcoin encoders, trusted; the proof fixes WHICH hash / witness program and network reach them',
            'hash160 primitive (uninterpreted)',
        ],
    },
    'C16': {
        'native': ['c05_', 'c06_', 'c16_'],
        'units': ['script_btc', 'script_custom', 'opreturn'],
        'kani_quick': [],
        'kani_thorough': [],
        'trusted': [
            'OpReturn::on_block is under contract in unit opreturn (one line per OP_RETURN output with non-empty payload text, in tx/output order, carrying height, txid, payload) through idioms I16 (`if C { continue; }` in tail position == `if !C { rest }`) and I21 (println! appends one line to an explicit ghost stdout log); the TEXT of a line is an uninterpreted function line3(format string, height, txid, payload) (format!/Display trusted; lane N c16_opreturn_printed_lines replays the real text with stdout captured)',
            'String::from_utf8 == (utf8_valid, utf8_decode), String::from_utf8_lossy == lossy_utf8: uninterpreted std functions',
            'rust-bitcoin Instructions iterator follows Bitcoin push rules (shim contract, trusted)',
        ],
    },
    'C14': {
        'native': ['c05_', 'c06_', 'c14_'],
        'units': ['script_btc', 'script_custom', 'reader'],
        'kani_quick': ['btc_is_provable_unspendable_first_byte'],
        'kani_thorough': [],
        'explanation': 'C14 reports the SAFETY obligations (arithmetic overflow, division by zero, slice index, unwrap/expect/unreachable/panic reachability) of every function on the script-evaluation and transaction-parsing path, plus the clauses tagged C14 (evaluation never yields ScriptPattern::Error; scriptSig/witness bytes are length-delimited and never interpreted).',
        'trusted': [
            'rust-bitcoin predicates, Address::from_script and Display are total (no panic): Kani no-panic harnesses on short scripts (bounded)',
            'String::from_utf8 / from_utf8_lossy total',
            'process-level exit status and "all other rows unchanged" need the whole pipeline incl. file I/O: outside; SimpleStats/OpReturn callbacks: see C15/C16',
        ],
    },
    'C01': {
        'native': ['c01_', 'c12_'],
        'units': ['reader', 'proto', 'csvdump'],
        'kani_quick': ['varuint_read_from_all_prefixes', 'varuint_read_from_short_input', 'reader_header_roundtrip', 'reader_outpoint_roundtrip', 'utils_arr_to_hex_one_byte'],
        'kani_thorough': [],
        'trusted': [
            'PARTIAL: decode fidelity, witness stripping, hash pre-images, count == length, row emission (one row per item, in order, to the right file; totals == rows written) are decided by Verus; the CSV TEXT of one row (as_csv: format!/Display of integers and hashes, arr_to_hex fold) is an uninterpreted function of the item in unit csvdump -- outside both verifiers, replayed by lane N only',
            'BufWriter<File>::write_all appends its whole buffer on Ok (ghost log shim in unit csvdump); flushing/renaming in on_complete is not under contract (lane N reads the renamed files)',
            'std::io::Read::read_exact and byteorder read_u8/u16/u32/u64::<LittleEndian> consume exactly their bytes (shim trait Read in unit reader; LE decoders Kani-validated)',
            'read_txs / read_merkle_branch: `(0..n).map(|_| E).collect()` is read as the loop it denotes (idiom I28: push E? n times, first Err returned) and proved with an inductive invariant; additionally a bounded Kani harness on the real code',
            'Block::new, EvaluatedTx::new, From<RawTx>, EvaluatedTxOut::eval_script are under contract in unit proto (every field kept, each output typed from its own script, txid = sha256d of the witness-stripped form, in block order); rayon into_par_iter().map(f).collect() is read as the ordered sequential map it denotes (idiom I29: order preservation of indexed parallel iterators is rayon\'s documented contract, assumed)',
            'sha256d primitive (uninterpreted)',
        ],
    },
    'C12': {
        'native': ['c12_'],
        'units': ['reader', 'chain'],
        'kani_quick': ['types_coin_parameter_table'],
        'kani_thorough': [],
        'trusted': [
            'read_merkle_branch consumes count || hashes || mask: proved in unit reader through idiom I28 (`(0..n).map(|_| self.read_256hash()).collect()` == the loop it denotes); bounded Kani harness on the real code as a cross-check',
            'per-coin aux_pow_activation_version table (namecoin 0x10101, dogecoin 0x620102, others None): lane K table check',
        ],
    },
    'C15': {
        'native': ['c15_'],
        'units': ['stats'],
        'kani_quick': ['utils_get_mean_exact_len3', 'utils_get_mean_exact_len1_and_empty', 'block_base_reward_halving', 'tx_is_coinbase_predicate'],
        'kani_thorough': [],
        'trusted': [
            'report rendering print_* (f64 formatting, format!) and the divisions of the averages -- UNCHECKED',
            'EvaluatedTx::is_coinbase contract: proved by Kani on the real body; EvaluatedTx::to_bytes length == witness-stripped size (unit proto)',
            'std HashMap<ScriptPattern,_> contains_key/insert/entry().or_insert() == Map operations on the pattern value (shim in unit stats)',
            'input well-formedness: counts equal lengths, a coinbase has an output, figures stay below 2^64 (no_overflow), height < 13 440 000',
            'get_base_reward for heights >= 64*210000 = 13 440 000 overflows the shift: documented precondition (outside the property\'s "heights up to millions")',
        ],
    },
}
