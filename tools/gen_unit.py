#!/usr/bin/env python3
"""gen_unit -- build one single-file Verus unit from a template plus the *current* /repo text.

A template (units/<unit>.rs) is an ordinary Verus file (shims of dependencies, spec functions,
lemmas) with directive blocks that pull items out of the repository **verbatim**:

    //@extract fn <file> :: <container header | -> :: <name>
    //@vis none                      (default: visibility normalised to `pub`)            [D2]
    //@ret none | <binder>           (default: `-> T` becomes `-> (r: T)`)                [D3]
    //@spec                          raw lines spliced between signature and body
    //@loop <k> [label=<id>]         raw lines spliced between the k-th loop header and its `{`
    //@before [#n] `anchor text`     raw ghost lines spliced before the line holding the anchor  [D6]
    //@after  [#n] `anchor text`     raw ghost lines spliced after the line holding the anchor   [D6]
    //@idiom <ID> ...                one of the mechanical rewrites I1..I9 / A1 (see IDIOMS)
    //@end

    //@extract type <file> :: <struct|enum> <name>
    //@attrs                         raw attribute lines emitted in front of the type
    //@end

Inside raw lines `//# label` names the clauses that follow (used to name failed obligations).

Every insertion is wrapped in /*@I{*/ .. /*@}*/ and every replacement in /*@R<n>{*/ .. /*@}*/;
`erase()` removes the former and restores the originals of the latter, and the result is
compared with the repository text (whitespace-insensitively) on every run: the verified text is
the repository text plus ghost code plus the logged rewrites, or the run is *undecided*.
"""
import json
import os
import re
import sys

sys.path.insert(0, os.path.dirname(os.path.abspath(__file__)))
import rsx  # noqa: E402


class GenError(Exception):
    """anchor lost / directive malformed / self-check mismatch  -> undecided (exit 2)"""


IDIOMS = {
    'I1': 'for (i, x) in E.iter().enumerate() {  =>  for i in 0..E.len() { let x = &E[i];',
    'I2': 'X.to_bytes().into_iter().skip(N).collect()  =>  idiom_skip_collect(X.to_bytes(), N)',
    'I3': 'R.unwrap_or_else(|_| E)  =>  match R { Ok(v) => v, Err(_) => E }',
    'I4': 'for P in A..=B {  =>  for P in A..B + 1 {',
    'I5': 'String::from_utf8_lossy(&X).into_owned()  =>  idiom_lossy(&X)',
    'I6': 'for x in &E {  =>  for i__ in 0..E.len() { let x = &E[i__];',
    'I7': 'V.extend(E)  =>  idiom_extend(&mut V, E)   (Vec<u8>::extend of a byte slice/array/Vec reference)',
    'I8': 'E.iter().sum::<T>()  =>  idiom_sum_T(E)',
    'I9': 'X.checked_sub(Y).unwrap_or_default()  =>  idiom_checked_sub_or_default(X, Y)',
    'I10': '&sha256d::Hash::hash(&X)[A..B]  =>  &idiom_sha256d_slice(&X, A, B)   (Index<Range> on the hash newtype)',
    'I11': 'X.to_le_bytes()  =>  idiom_le_bytes(X)   (result as Vec<u8>; only ever passed to extend())',
    'I12': 'X.try_into().expect(MSG)  =>  idiom_try_into_expect(X)   (slice -> [u8; N]; the panic becomes the precondition len == N)',
    'I13': 'X.borrow_mut()  =>  X.as_mut_slice()   (BorrowMut<[u8]> for Vec<u8> / [u8; N] is the whole buffer as a slice)',
    'I14': 'T::from(E)  =>  T::from_<ty>(E)   (From-trait static dispatch made explicit; rustc re-checks that E has type <ty>)',
    'I15': 'M.entry(K).or_insert(V)  =>  idiom_entry_or_insert(&mut M, K, V)   (HashMap entry API: &mut to the value at K, V inserted first if absent)',
    'I17': 'for (K, V) in &M {  |  for (K, V) in M.iter() {  |  for V in M.values() {   =>  let es__ = idiom_map_entries(&M); for i__ in 0..es__.len() { let (K, V) = (&es__[i__].0, es__[i__].1);   (HashMap iteration = enumeration of the entries, each once, in an UNSPECIFIED order)',
    'I18': '*M.keys().max().unwrap()  =>  idiom_max_key(&M)   (panics on an empty map: precondition)',
    'I19': 'M.retain(|K, _| { *K >= A && *K <= B });  or  M.retain(|K, _| (A..=B).contains(K));  =>  idiom_retain_key_range(&mut M, A, B);',
    'I16': 'if C { continue; } REST }  =>  if !(C) { REST } }   (only where nothing but closing braces lies between the end of the enclosing block and the end of the loop body: `continue` == skip REST)',
    'I21': 'println!(ARGS)  =>  verif_println!(stdout__, ARGS)   (the process-global stdout made an explicit ghost line log)',
    'I25': 'X.chunks(2).filter(|c| c.len() == 2).map(|c| sha256d::Hash::hash(&[c[0], c[1]].concat())).collect::<Vec<sha256d::Hash>>()  =>  idiom_hash_pairs(&X)   (hash of every complete adjacent pair, in order)',
    'I26': '[&A[..], &B[..]].concat()  =>  idiom_concat_hashes(A, B)   (the bytes of two hashes, concatenated)',
    'I27': 'X.iter().map(|tx| tx.hash).collect::<Vec<sha256d::Hash>>()  =>  idiom_tx_hashes(&X)   (the hash field of every element, in order)',
    'I28': '(0..N).map(|_| E).collect()  [tail expression of a fn returning Result<Vec<T>>]  =>  { let mut v__ = Vec::new(); for i__ in 0..N { let x__ = E?; v__.push(x__); } Ok(v__) }   and   (0..N).map(|_| E).collect::<Result<Vec<T>>>()?  =>  { let mut v__: Vec<T> = Vec::new(); for i__ in 0..N { let x__ = E?; v__.push(x__); } v__ }   (collect() into a Result stops at the first Err and returns it: the same early return)',
    'I29': 'X.into_par_iter().map(|P| E).collect()  =>  { let mut v__ = Vec::new(); let xs__ = X; for P in xs__ { let y__ = E; v__.push(y__); } v__ }   (rayon: collect() of an indexed parallel map yields the results in input order, E applied once per element)',
    'I31': 'X.as_ref() == [0u8; 32]  =>  idiom_is_zero32(&X)   (a 32-byte hash compared with the all-zero array)',
    'I30': 'for X in [A, B, ..] {  =>  for i__X in 0..[A, B, ..].len() { let X = [A, B, ..][i__X];   (iteration over an array literal by value, in order)',
    'I24': 'PATH(ARGS).expect(MSG)  =>  idiom_expect(PATH(ARGS), MSG)   (Result::expect: returns only when the result is Ok, panics otherwise)',
    'A1': 'abstract-expression: `expr` => havoc::<T>() (unconstrained value)',
}


def _nth(hay, needle, n, what):
    pos, start = -1, 0
    cnt = hay.count(needle)
    if cnt == 0:
        raise GenError('anchor not found: %s `%s`' % (what, needle))
    if n is None:
        if cnt != 1:
            raise GenError('anchor ambiguous (%d matches, use #n): %s `%s`' % (cnt, what, needle))
        n = 1
    for _ in range(n):
        pos = hay.find(needle, start)
        if pos < 0:
            raise GenError('anchor occurrence #%d not found: %s `%s`' % (n, what, needle))
        start = pos + 1
    return pos


def _parse_anchor(rest):
    """[#n] `text` [=> `text2`]"""
    n = None
    m = re.match(r'\s*#(\d+)\s*', rest)
    if m:
        n = int(m.group(1))
        rest = rest[m.end():]
    parts = re.findall(r'`([^`]*)`', rest)
    return n, parts


class Block:
    def __init__(self, kind, header, tline):
        self.kind = kind            # 'fn' | 'type'
        self.header = header
        self.tline = tline
        self.subs = []              # (directive, argtext, rawlines, template_line)


def parse_template(path):
    out = []     # list of ('line', text, lineno) | ('block', Block)
    cur = None
    sub = None
    def expand(pth, depth=0):
        res = []
        for no, line in enumerate(open(pth, encoding='utf-8').read().split('\n'), 1):
            mi = re.match(r'\s*//@include\s+(\S+)\s*$', line)
            if mi:
                if depth > 4:
                    raise GenError('include depth exceeded at %s:%d' % (pth, no))
                inc = os.path.join(os.path.dirname(os.path.abspath(path)), mi.group(1))
                if not os.path.exists(inc):
                    raise GenError('%s:%d include not found: %s' % (pth, no, mi.group(1)))
                res.extend(expand(inc, depth + 1))
            else:
                res.append(('%s:%d' % (os.path.basename(pth), no), line))
        return res
    for no, line in expand(path):
        s = line.strip()
        if s.startswith('//@'):
            body = s[3:].strip()
            word = body.split(None, 1)[0] if body else ''
            rest = body[len(word):].strip()
            if word == 'unit' and cur is None:
                out.append(('line', line, no))
                continue
            if word in ('extract', 'extract?'):
                if cur is not None:
                    raise GenError('%s:%s nested //@extract' % (path, no))
                kind, hdr = rest.split(None, 1)
                cur = Block(kind, hdr, no)
                cur.optional = (word == 'extract?')
                sub = None
                continue
            if word == 'end':
                if cur is None:
                    raise GenError('%s:%s //@end without //@extract' % (path, no))
                out.append(('block', cur))
                cur, sub = None, None
                continue
            if cur is None:
                raise GenError('%s:%s directive outside //@extract: %s' % (path, no, s))
            sub = [word, rest, [], no]
            cur.subs.append(sub)
            continue
        if cur is not None:
            if sub is None:
                if s:
                    raise GenError('%s:%s raw line before any sub-directive' % (path, no))
                continue
            sub[2].append((line, no))
        else:
            out.append(('line', line, no))
    if cur is not None:
        raise GenError('%s: unterminated //@extract at line %s' % (path, cur.tline))
    return out


class Edits:
    """edits on the verbatim text of one item (offsets relative to the item start)"""

    def __init__(self, text):
        self.text = text
        self.ins = []     # (off, order, rawlines[(text, tline)], directive)
        self.rep = []     # (a, b, newtext, rule, original)
        self._order = 0

    def insert(self, off, rawlines, directive):
        self._order += 1
        self.ins.append((off, self._order, rawlines, directive))

    def replace(self, a, b, new, rule):
        for (x, y, *_r) in self.rep:
            if not (b <= x or a >= y) and not (a == b == x == y):
                raise GenError('overlapping rewrites at %d..%d (%s)' % (a, b, rule))
        self._order += 1
        self.rep.append((a, b, new, rule, self.text[a:b], self._order))

    def render(self, origin_of):
        """returns list of segments (text, origin) ; origin_of(off) -> origin dict for repo text"""
        events = []
        for (off, order, raw, d) in self.ins:
            events.append((off, 1, order, 'ins', (raw, d)))
        for (a, b, new, rule, orig, order) in self.rep:
            events.append((a, 0 if a == b else 2, order, 'rep', (b, new, rule, orig)))
        # insertion at the same offset as a non-empty replacement start goes first
        events.sort(key=lambda e: (e[0], e[1], e[2]))
        for (a, b, *_r) in self.rep:
            for (off, *_i) in self.ins:
                if a < off < b:
                    raise GenError('insertion inside a rewritten range')
        segs, pos, originals = [], 0, []
        for (off, _k, _o, typ, data) in events:
            if off < pos:
                raise GenError('edit order conflict at %d' % off)
            if off > pos:
                segs.append((self.text[pos:off], ('repo', pos)))
                pos = off
            if typ == 'ins':
                raw, d = data
                segs.append(('/*@I{*/', ('mark', None)))
                label = None
                for (ln, tline) in raw:
                    m = re.match(r'\s*//#\s*(\S+)', ln)
                    if m:
                        label = m.group(1)
                    segs.append((ln + '\n', ('ins', d, label, tline)))
                segs.append(('/*@}*/', ('mark', None)))
            else:
                b, new, rule, orig = data
                idx = len(originals)
                originals.append({'rule': rule, 'original': orig, 'new': new})
                segs.append(('/*@R%d{*/' % idx, ('mark', None)))
                segs.append((new, ('rew', rule, pos)))
                segs.append(('/*@}*/', ('mark', None)))
                pos = b
        if pos < len(self.text):
            segs.append((self.text[pos:], ('repo', pos)))
        return segs, originals


def erase(gen_text, originals):
    """inverse of the splicing: drop insertions, restore originals of rewrites"""
    out = re.sub(r'/\*@I\{\*/.*?/\*@\}\*/', '', gen_text, flags=re.S)

    def back(m):
        return originals[int(m.group(1))]['original']
    out = re.sub(r'/\*@R(\d+)\{\*/.*?/\*@\}\*/', back, out, flags=re.S)
    return out


def squash(s):
    return re.sub(r'\s+', '', s)


def _line_start(text, off):
    return text.rfind('\n', 0, off) + 1


def _line_end(text, off):
    j = text.find('\n', off)
    return len(text) if j < 0 else j + 1


def build_fn(repo, blk, log, abstract=()):
    m = re.match(r'(\S+)\s*::\s*(.*?)\s*::\s*(\w+)\s*$', blk.header)
    if not m:
        raise GenError('bad //@extract fn header: %s' % blk.header)
    rel, container, name = m.groups()
    src = repo.source(rel)
    try:
        it = src.find_fn(container, name)
    except rsx.ScanError as e:
        raise GenError(str(e))
    text = it.text
    base = it.start
    ed = Edits(text)
    vis = 'pub'
    ret = 'r'
    props = None
    lost = []          # anchors of ghost hints / invariants / idioms that no longer match the body
    loops = src.loops_in(it.body_start, it.body_end)
    item_id = '%s::%s' % (container if container not in ('-', '') else rel.split('/')[-1], name)
    item_id = re.sub(r'^(impl|trait)(<[^>]*>)?\s+', '', item_id)
    item_id = re.sub(r"<[^<>]*>", '', item_id)
    item_id = re.sub(r'^(\w+)\s*:[^:].*?::', r'\1::', item_id)   # `trait X: Bound` -> X
    body_rel = it.body_start - base
    is_abstract = item_id in abstract
    if is_abstract:
        # the body left the verifiable subset: keep signature + contract, assume the contract
        # (this function is then UNDECIDED by lane V; the rest of the unit is still checked)
        ed.replace(body_rel + 1, len(text) - 1, ' unimplemented!() ', 'ABSTRACTED')

    annotated_loops = set()
    for (word, rest, raw, tline) in blk.subs:
        mm0 = re.match(r'(?:\w+\s+)?(?:loop\s+)?(\d+)', rest) if word == 'loop' else re.match(r'\w+\s+loop\s+(\d+)', rest) if word in ('idiom', 'idiom?') else None
        if mm0:
            annotated_loops.add(int(mm0.group(1)))
    for (word, rest, raw, tline) in blk.subs:
        if is_abstract and word in ('loop', 'before', 'after', 'idiom', 'idiom?'):
            continue
        d = {'kind': word, 'arg': rest, 'tline': tline}
        if word == 'props':
            props = rest.replace(',', ' ').split()
        elif word == 'vis':
            vis = '' if rest == 'none' else rest
        elif word == 'ret':
            ret = None if rest == 'none' else rest
        elif word == 'spec':
            ed.insert(body_rel, [('', tline)] + raw, d)
        elif word == 'loop':
            mm = re.match(r'(\d+)(?:\s+label=(\w+))?$', rest)
            if not mm:
                raise GenError('bad //@loop: %s' % rest)
            k = int(mm.group(1))
            if k < 1 or k > len(loops):
                lost.append('loop %d (body has %d loops)' % (k, len(loops)))
                continue
            kw_off, kw, brace_off, in_off = loops[k - 1]
            if mm.group(2):
                if in_off is None:
                    raise GenError('%s: loop %d is not a for loop, cannot label' % (item_id, k))
                ed.insert(in_off - base, [(' %s:' % mm.group(2), tline)], dict(d, kind='looplabel'))
            ed.insert(brace_off - base, [('', tline)] + raw, d)
        elif word in ('before', 'after'):
            n, parts = _parse_anchor(rest)
            if len(parts) != 1:
                raise GenError('bad //@%s anchor: %s' % (word, rest))
            body = text[body_rel:]
            try:
                p = _nth(body, parts[0], n, item_id) + body_rel
            except GenError as e:
                lost.append('%s `%s`: %s' % (word, parts[0][:60], 'ambiguous' if 'ambiguous' in str(e) else 'not found'))
                continue
            if word == 'before':
                off = _line_start(text, p)
            else:
                off = _line_end(text, p + len(parts[0]))
            ed.insert(off, raw, d)
        elif word in ('idiom', 'idiom?'):
            # `idiom?` = apply when the source has the idiom's shape, skip (and log) otherwise:
            # lets one template follow the code across a repair (e.g. `..` vs `..=`)
            try:
                apply_idiom(ed, text, base, body_rel, loops, rest, item_id, log, rel, src, raw=raw, tline=tline)
            except GenError as e:
                if word == 'idiom':
                    lost.append('idiom %s: %s' % (rest.split()[0], str(e)[:80]))
                log['idioms'].append({'rule': rest.split()[0], 'item': item_id, 'file': rel,
                                      'skipped': str(e)})
        else:
            raise GenError('unknown directive //@%s' % word)

    # the function was rewritten since its proof was written (more than three changed lines): hints, invariants and the
    # SMT behaviour belong to another body -- a failure here is a failed proof attempt, not a verdict by itself
    nchg = changed_lines(rel, item_id, text)
    if nchg is not None and nchg > MAX_CHANGED_LINES and not is_abstract and os.environ.get('VERIF_REWRITE_RULE', '1') == '1':
        lost.append('body rewritten: %d lines differ from the version the proof was written for' % nchg)
    log.setdefault('changed_lines', {})[item_id] = nchg
    # a loop the template has no invariant for: whatever follows it cannot be proved -- a failure in this function is a
    # failed proof attempt (reported as undecided unless a lane with concrete inputs confirms it)
    unannotated = [k for k in range(1, len(loops) + 1) if k not in annotated_loops]
    if unannotated and not is_abstract:
        log.setdefault('unannotated_loops', []).append({'item': item_id, 'loops': unannotated})
        if os.environ.get('VERIF_LOOP_RULE', '1') == '1':
            lost.append('loop %s of the body has no invariant in the template' % ','.join(map(str, unannotated)))
    # D2 visibility
    vis_len = len(it.vis)
    if it.vis != vis:
        # replace the visibility text (possibly empty) at the front
        a, b = 0, vis_len
        new = vis + (' ' if vis and not it.vis else '')
        if vis == '' and it.vis:
            # also swallow the blank after the removed visibility
            while b < len(text) and text[b] == ' ':
                b += 1
        ed.replace(a, b, new, 'D2')
    # D3 result binder
    if ret is not None:
        sig_rel_end = body_rel
        sig = text[:sig_rel_end]
        toks = rsx.tokenize(sig)
        pair = rsx.match_brackets(toks)
        arrow = None
        i = 0
        while i < len(toks) - 1:
            t = toks[i]
            if t.kind == 'punct' and t.text in '([':
                i = pair[i] + 1
                continue
            if t.text == '-' and toks[i + 1].text == '>' and toks[i + 1].start == t.end:
                arrow = i
            i += 1
        if arrow is not None:
            a = toks[arrow + 2].start
            b = len(sig.rstrip())
            for t in toks[arrow + 2:]:
                if t.kind == 'ident' and t.text == 'where':
                    b = len(sig[:t.start].rstrip())
                    break
            ed.replace(a, b, '(%s: %s)' % (ret, sig[a:b]), 'D3')

    def origin_of(off):
        return {'file': rel, 'line': src.line_of(base + off)}

    segs, originals = ed.render(origin_of)
    if is_abstract:
        segs = [('/*@I{*/', ('mark', None)),
                ('#[verifier::external_body]\n', ('ins', {'kind': 'abstracted', 'arg': ''}, None, 0)),
                ('/*@}*/', ('mark', None))] + segs
    gen = ''.join(s for s, _ in segs)
    # ---- self-check: erase(generated) == repository text ---------------------------------
    if squash(erase(gen, originals)) != squash(text):
        raise GenError('self-check failed for %s: erased text differs from %s' % (item_id, rel))
    log['items'].append({
        'item': item_id, 'kind': 'fn', 'file': rel, 'line': it.line, 'props': props, 'lost_anchors': lost,
        'abstracted': is_abstract,
        'end_line': src.line_of(it.body_end),
        'repo_bytes': len(text), 'rewrites': [dict(o) for o in originals],
        'insertions': len(ed.ins), 'self_check': 'erase(generated)==repo',
    })
    return item_id, segs, origin_of


def _loop(loops, k, item_id):
    if k < 1 or k > len(loops):
        raise GenError('%s: loop %d not found' % (item_id, k))
    return loops[k - 1]


def _balanced_arg(s, open_idx):
    """s[open_idx] == '(' ; returns index of matching ')' """
    depth = 0
    for i in range(open_idx, len(s)):
        if s[i] == '(':
            depth += 1
        elif s[i] == ')':
            depth -= 1
            if depth == 0:
                return i
    raise GenError('unbalanced parens in idiom anchor')


def _match_brace(s, open_idx):
    """s[open_idx] == '{'; index of the matching '}' (string / char literals and comments skipped)"""
    depth, i, n = 0, open_idx, len(s)
    while i < n:
        c = s[i]
        if c == '"':
            i += 1
            while i < n and s[i] != '"':
                i += 2 if s[i] == '\\' else 1
        elif c == '/' and s[i:i + 2] == '//':
            while i < n and s[i] != '\n':
                i += 1
        elif c == '/' and s[i:i + 2] == '/*':
            i = s.index('*/', i) + 1
        elif c == "'" and re.match(r"'(\\.|[^\\'])'", s[i:i + 4]):
            i += len(re.match(r"'(\\.|[^\\'])'", s[i:i + 4]).group(0)) - 1
        elif c == '{':
            depth += 1
        elif c == '}':
            depth -= 1
            if depth == 0:
                return i
        i += 1
    raise GenError('unbalanced braces')


def _enclosing_close(s, pos):
    """index of the '}' that closes the block containing offset pos"""
    i, n = pos, len(s)
    while i < n:
        c = s[i]
        if c == '"':
            i += 1
            while i < n and s[i] != '"':
                i += 2 if s[i] == '\\' else 1
        elif c == '{':
            i = _match_brace(s, i)
        elif c == '}':
            return i
        i += 1
    raise GenError('no enclosing block')


MAX_CHANGED_LINES = 6       # up to three changed lines (3 removed + 3 added) still count as "the function the proof was written for"
_LOCK = None


def _body_lock():
    global _LOCK
    if _LOCK is None:
        try:
            _LOCK = json.load(open(os.path.join(os.path.dirname(os.path.dirname(os.path.abspath(__file__))), 'units', 'bodies.lock.json')))
        except Exception:
            _LOCK = {}
    return _LOCK


def _norm_lines(text):
    return [' '.join(l.split()) for l in text.split('\n') if l.strip() and not l.strip().startswith('//')]


def changed_lines(rel, item_id, text):
    """number of lines by which `text` differs from the version the proofs were written for (None: not locked)"""
    old = _body_lock().get('%s::%s' % (rel, item_id))
    if old is None:
        return None
    import difflib
    new = _norm_lines(text)
    n = 0
    for tag, a0, a1, b0, b1 in difflib.SequenceMatcher(None, old, new, autojunk=False).get_opcodes():
        if tag != 'equal':
            n += (a1 - a0) + (b1 - b0)
    return n


def apply_idiom(ed, text, base, body_rel, loops, rest, item_id, log, rel, src, raw=None, tline=None):
    m = re.match(r'(\w+)\s*(.*)$', rest)
    rule, arg = m.group(1), m.group(2)
    if rule not in IDIOMS:
        raise GenError('unknown idiom %s' % rule)
    inst = {'rule': rule, 'item': item_id, 'file': rel}
    if rule in ('I1', 'I4', 'I6', 'I17', 'I30'):
        mm = re.match(r'loop\s+(\d+)$', arg)
        if not mm:
            raise GenError('idiom %s needs `loop k`' % rule)
        kw_off, kw, brace_off, in_off = _loop(loops, int(mm.group(1)), item_id)
        a, b = kw_off - base, brace_off - base
        hdr = text[a:b]
        inst['line'] = src.line_of(kw_off)
        if rule == 'I1':
            h = re.match(r'for \((\w+), (\w+)\) in (.+?)\.iter\(\)\.enumerate\(\)\s*$', hdr, re.S)
            if not h:
                raise GenError('%s: loop header does not have the I1 shape: %s' % (item_id, hdr))
            i_, x_, e_ = h.groups()
            e_ = rsx.norm_ws(e_)
            ed.replace(a, b, 'for %s in 0..%s.len() ' % (i_, e_), 'I1')
            ed.replace(b + 1, b + 1, ' let %s = &%s[%s];' % (x_, e_, i_), 'I1')
        elif rule == 'I17':
            h = re.match(r'for \((\w+), (\w+)\) in &(\w+)\s*$', hdr, re.S)
            h2 = re.match(r'for \((\w+), (\w+)\) in ([\w.]+)\.iter\(\)\s*$', hdr, re.S)
            h3 = re.match(r'for (\w+) in ([\w.]+)\.values\(\)\s*$', hdr, re.S)
            if h:
                k_, v_, m_ = h.groups()
                ed.replace(a, a, 'let es__%s = idiom_map_entries(&%s); ' % (m_, m_), 'I17')
                ed.replace(a, b, 'for i__%s in 0..es__%s.len() ' % (m_, m_), 'I17')
                ed.replace(b + 1, b + 1, ' let (%s, %s) = (&es__%s[i__%s].0, es__%s[i__%s].1);' % (k_, v_, m_, m_, m_, m_), 'I17')
            elif h2:
                # `M.iter()`: both components are references
                k_, v_, m_ = h2.groups()
                id_ = re.sub(r'\W', '_', m_)
                ed.replace(a, a, 'let es__%s = %s.idiom_entries(); ' % (id_, m_), 'I17')
                ed.replace(a, b, 'for i__%s in 0..es__%s.len() ' % (id_, id_), 'I17')
                ed.replace(b + 1, b + 1, ' let (%s, %s) = (es__%s[i__%s].0, es__%s[i__%s].1);' % (k_, v_, id_, id_, id_, id_), 'I17')
            elif h3:
                # `M.values()`: the value component of the same enumeration
                v_, m_ = h3.groups()
                id_ = re.sub(r'\W', '_', m_)
                ed.replace(a, a, 'let es__%s = %s.idiom_entries(); ' % (id_, m_), 'I17')
                ed.replace(a, b, 'for i__%s in 0..es__%s.len() ' % (id_, id_), 'I17')
                ed.replace(b + 1, b + 1, ' let %s = es__%s[i__%s].1;' % (v_, id_, id_), 'I17')
            else:
                raise GenError('%s: loop header does not have the I17 shape: %s' % (item_id, hdr))
        elif rule == 'I30':
            h = re.match(r'for (\w+) in (\[.*\])\s*$', hdr, re.S)
            if not h:
                raise GenError('%s: loop header does not have the I30 shape: %s' % (item_id, hdr))
            x_, e_ = h.groups()
            e_ = rsx.norm_ws(e_)
            iv = 'i__%s' % x_
            ed.replace(a, b, 'for %s in 0..%s.len() ' % (iv, e_), 'I30')
            ed.replace(b + 1, b + 1, ' let %s = %s[%s];' % (x_, e_, iv), 'I30')
        elif rule == 'I6':
            h = re.match(r'for (\w+) in &(.+?)\s*$', hdr, re.S)
            if not h:
                raise GenError('%s: loop header does not have the I6 shape: %s' % (item_id, hdr))
            x_, e_ = h.groups()
            e_ = rsx.norm_ws(e_)
            iv = 'i__%s' % x_
            ed.replace(a, b, 'for %s in 0..%s.len() ' % (iv, e_), 'I6')
            ed.replace(b + 1, b + 1, ' let %s = &%s[%s];' % (x_, e_, iv), 'I6')
        else:
            h = re.match(r'(for .+? in )(.+?)\.\.=(.+?)\s*$', hdr, re.S)
            if not h:
                raise GenError('%s: loop header does not have the I4 shape: %s' % (item_id, hdr))
            pre, lo, hi = h.groups()
            a2 = a + len(pre)
            ed.replace(a2, b, '%s..%s + 1 ' % (lo, hi), 'I4')
        inst['original'] = rsx.norm_ws(hdr)
    else:
        n, parts = _parse_anchor(arg)
        if not parts:
            raise GenError('idiom %s needs an anchor' % rule)
        anchor = parts[0]
        if anchor in text[body_rel:]:
            p = _nth(text[body_rel:], anchor, n, item_id) + body_rel
            a, b = p, p + len(anchor)
        else:
            # the anchor is given on one line; in the source it may span several lines: whitespace-insensitive match
            rx = re.compile(r'\s*'.join(re.escape(tok) for tok in re.findall(r'\w+|[^\w\s]', anchor)))
            ms = list(rx.finditer(text, body_rel))
            if not ms or (n is None and len(ms) != 1) or (n is not None and n > len(ms)):
                raise GenError('anchor not found: %s `%s`' % (item_id, anchor))
            mm = ms[(n or 1) - 1]
            a, b = mm.start(), mm.end()
            anchor = text[a:b]
        if rule == 'I19' and anchor.endswith('retain('):
            # the anchor names the call; the span is the whole balanced call plus `;` (bounds A, B stay under proof)
            e = _balanced_arg(text, b - 1)
            b = e + 1
            if text[b:b + 1] == ';':
                b += 1
            anchor = text[a:b]
        if rule == 'I28' and anchor == '(0..':
            # the anchor names the range; the span is (0..N).map(|_| E).collect[::<Result<Vec<T>>>]()[?]  (N and E stay under proof)
            c1 = _balanced_arg(text, a)
            m2 = re.match(r'\s*\.map\(', text[c1 + 1:])
            if not m2:
                raise GenError('I28: (0..N) is not followed by .map(')
            c2 = _balanced_arg(text, c1 + 1 + m2.end() - 1)
            m3 = re.match(r'\s*\.collect(?:::<Result<Vec<[^()]+?>>>)?\(\)\??', text[c2 + 1:])
            if not m3:
                raise GenError('I28: .map(..) is not followed by .collect()')
            b = c2 + 1 + m3.end()
            anchor = text[a:b]
        if rule == 'I29':
            if rsx.norm_ws(anchor) != '.into_par_iter()':
                raise GenError('I29 anchor must be `.into_par_iter()`')
            r1 = a
            while r1 > 0 and text[r1 - 1].isspace():
                r1 -= 1
            r0 = r1
            while r0 > 0 and (text[r0 - 1].isalnum() or text[r0 - 1] in '_.'):
                r0 -= 1
            if r0 == r1:
                raise GenError('I29: no receiver before .into_par_iter()')
            m2 = re.match(r'\s*\.map\(\|(\w+)\|\s*', text[b:])
            if not m2:
                raise GenError('I29: .into_par_iter() is not followed by .map(|p| ..)')
            open2 = b + text[b:].index('(', 0)
            close2 = _balanced_arg(text, open2)
            pn0, pn1 = b + m2.start(1), b + m2.end(1)
            e0, e1 = b + m2.end(), close2
            m3 = re.match(r'\)\s*\.collect\(\)', text[close2:])
            if not m3:
                raise GenError('I29: .map(..) is not followed by .collect()')
            bend = close2 + m3.end()
            sect = {'pre': [], 'inv': [], 'top': [], 'body': []}
            cur = 'inv'
            for (ln, tl) in (raw or []):
                mm3 = re.match(r'\s*//--(pre|inv|top|body)\s*$', ln)
                if mm3:
                    cur = mm3.group(1)
                else:
                    sect[cur].append((ln, tl))
            d = {'kind': 'idiom-I29', 'arg': rest, 'tline': tline}
            inst['line'] = src.line_of(base + r0)
            inst['original'] = text[r0:bend]
            ty = (': %s' % parts[1]) if len(parts) == 2 else ''     # result type made explicit (rustc infers it from the destination; ghost text needs it earlier)
            ed.replace(r0, r0, '{ let mut v__%s = Vec::new(); let xs__ = ' % ty, 'I29')
            mid = r1 + 1
            ed.replace(r1, mid, ';', 'I29')
            if sect['pre']:
                ed.insert(mid, sect['pre'], d)
            ed.replace(mid, pn0, ' for ', 'I29')
            ed.replace(pn1, e0, ' in it__: xs__ ', 'I29')
            ed.insert(e0, sect['inv'] + [('{', tline)] + sect['top'] + [('let y__ = ', tline)], d)
            ed.replace(e1, bend, '; v__.push(y__);', 'I29')
            ed.insert(bend, sect['body'] + [('} v__ }', tline)], d)
            log['idioms'].append(dict(inst, new='{ let mut v__ = Vec::new(); let xs__ = X; for P in xs__ { let y__ = E; v__.push(y__); } v__ }'))
            return
        if rule == 'I15' and anchor.endswith('.entry('):
            # the anchor names the map; the span is M.entry(<balanced>).or_insert(<balanced>) (K and V stay under proof)
            e = _balanced_arg(text, b - 1)
            mm2 = re.match(r'\s*\.or_insert\(', text[e + 1:])
            if not mm2:
                raise GenError('I15: .entry(..) is not followed by .or_insert(: %s' % text[a:e + 20])
            b = _balanced_arg(text, e + 1 + mm2.end() - 1) + 1
            anchor = text[a:b]
        inst['line'] = src.line_of(base + a)
        inst['original'] = anchor
        flat = rsx.norm_ws(anchor)
        if rule == 'I2':
            h = re.match(r'^([\w\.]+)\.to_bytes\(\)\.into_iter\(\)\.skip\((\d+)\)\.collect\(\)$', flat)
            if not h:
                raise GenError('I2 shape mismatch: %s' % flat)
            new = 'idiom_skip_collect(%s.to_bytes(), %s)' % h.groups()
        elif rule == 'I3':
            h = re.match(r'^([\w\.]+)\.unwrap_or_else\(\|_\| (.*)\)$', flat)
            if not h:
                raise GenError('I3 shape mismatch: %s' % flat)
            new = 'match %s { Ok(v__) => v__, Err(_) => %s }' % h.groups()
        elif rule == 'I5':
            h = re.match(r'^String::from_utf8_lossy\(&(\w+)\)\.into_owned\(\)$', flat)
            if not h:
                raise GenError('I5 shape mismatch: %s' % flat)
            new = 'idiom_lossy(&%s)' % h.group(1)
        elif rule == 'I7':
            h = re.match(r'^([\w\.]+)\.extend\((.*)\)$', flat)
            if not h:
                raise GenError('I7 shape mismatch: %s' % flat)
            # only the call prefix is rewritten, the argument text stays (and may hold an I11)
            pre = re.match(r'^([\w\.]+)\.extend\(', anchor)
            b = a + pre.end()
            new = 'idiom_extend(&mut %s, ' % h.group(1)
        elif rule == 'I16':
            # anchor: `if C {` ; the block must be exactly `{ continue; }`
            if not (flat.startswith('if ') and flat.endswith('{')):
                raise GenError('I16 anchor must be `if C {`: %s' % flat)
            close = _match_brace(text, b - 1)
            if rsx.norm_ws(text[b:close]) != 'continue;':
                raise GenError('I16: block is not `{ continue; }`: %s' % text[b:close])
            enc = _enclosing_close(text, close + 1)
            # innermost loop around the anchor
            inner = None
            for (kw_off, kw, brace_off, in_off) in loops:
                lo = brace_off - base
                if lo < a and _match_brace(text, lo) > a:
                    inner = lo
            if inner is None:
                raise GenError('I16: no enclosing loop')
            loop_close = _match_brace(text, inner)
            if re.sub(r'[\s}]', '', text[enc:loop_close]) != '':
                raise GenError('I16: statements follow the enclosing block inside the loop body; `continue` is not a plain skip here')
            cond = flat[3:-1].strip()
            ed.replace(enc, enc, '} ', 'I16')
            b = close + 1
            new = 'if !(%s) {' % cond
        elif rule == 'I21':
            if flat != 'println!(':
                raise GenError('I21 anchor must be `println!(`')
            new = 'verif_println!(stdout__, '
        elif rule == 'I24':
            if not re.match(r'^\.expect\("[^"]*"\)$', flat):
                raise GenError('I24 shape mismatch: %s' % flat)
            q = a
            while q > 0 and text[q - 1].isspace():
                q -= 1
            if text[q - 1] != ')':
                raise GenError('I24: receiver is not a call: %s' % text[max(0, q - 30):q])
            depth, q = 0, q - 1
            while True:
                if text[q] == ')':
                    depth += 1
                elif text[q] == '(':
                    depth -= 1
                    if depth == 0:
                        break
                q -= 1
            while q > 0 and (text[q - 1].isalnum() or text[q - 1] in '_:.'):
                q -= 1
            ed.replace(q, q, 'idiom_expect(', 'I24')
            new = ', ' + anchor[len('.expect('):]
        elif rule == 'I12':
            h = re.match(r'^([\w\.]+)\.try_into\(\)\.expect\("[^"]*"\)$', flat)
            if not h:
                raise GenError('I12 shape mismatch: %s' % flat)
            new = 'idiom_try_into_expect(%s)' % h.group(1)
        elif rule == 'I13':
            h = re.match(r'^([\w\.]+)\.borrow_mut\(\)$', flat)
            if not h:
                raise GenError('I13 shape mismatch: %s' % flat)
            new = '%s.as_mut_slice()' % h.group(1)
        elif rule == 'I14':
            h = re.match(r'^(\w+)::from\((.*)\)$', flat, re.S)
            if not h or len(parts) != 2 or not re.match(r'^\w+$', parts[1]):
                raise GenError('I14 shape mismatch: %s' % flat)
            pre = re.match(r'^(\w+)::from\(', anchor)
            b = a + pre.end()
            new = '%s::from_%s(' % (h.group(1), parts[1])
        elif rule == 'I15':
            h = re.match(r'^([\w\.]+)\.entry\((.+)\)\.or_insert\((.+)\)$', flat)
            if not h:
                raise GenError('I15 shape mismatch: %s' % flat)
            new = 'idiom_entry_or_insert(&mut %s, %s, %s)' % h.groups()
        elif rule == 'I18':
            h = re.match(r'^\*([\w\.]+)\.keys\(\)\.max\(\)\.unwrap\(\)$', flat)
            if not h:
                raise GenError('I18 shape mismatch: %s' % flat)
            new = 'idiom_max_key(&%s)' % h.group(1)
        elif rule == 'I19':
            h = (re.match(r'^([\w\.]+)\.retain\(\|(\w+), _\| \{ \*(\w+) >= (.+?) && \*(\w+) <= (.+?) \}\);$', flat)
                 or re.match(r'^([\w\.]+)\.retain\(\|(\w+), _\| \*(\w+) >= (.+?) && \*(\w+) <= (.+?)\);$', flat))
            # the same key filter written with an inclusive range: `|K, _| (A..=B).contains(K)` keeps exactly A <= K <= B
            h2 = (re.match(r'^([\w\.]+)\.retain\(\|(\w+), _\| \{? ?\((.+?)\.\.=(.+?)\)\.contains\((\w+)\) ?\}?\);$', flat) if not h else None)
            if h and h.group(2) == h.group(3) and h.group(2) == h.group(5):
                new = 'idiom_retain_key_range(&mut %s, %s, %s);' % (h.group(1), h.group(4), h.group(6))
            elif h2 and h2.group(2) == h2.group(5):
                new = 'idiom_retain_key_range(&mut %s, %s, %s);' % (h2.group(1), h2.group(3), h2.group(4))
            else:
                raise GenError('I19 shape mismatch: %s' % flat)
        elif rule == 'I31':
            h = re.match(r'^([\w\.]+)\.as_ref\(\) == \[0u8; 32\]$', flat)
            if not h:
                raise GenError('I31 shape mismatch: %s' % flat)
            new = 'idiom_is_zero32(&%s)' % h.group(1)
        elif rule == 'I11':
            h = re.match(r'^([\w\.]+)\.to_le_bytes\(\)$', flat)
            if not h:
                raise GenError('I11 shape mismatch: %s' % flat)
            new = 'idiom_le_bytes(%s)' % h.group(1)
        elif rule == 'I8':
            h = re.match(r'^([\w\.]+)\.iter\(\)\.sum::<(\w+)>\(\)$', flat)
            if not h:
                raise GenError('I8 shape mismatch: %s' % flat)
            new = 'idiom_sum_%s(%s)' % (h.group(2), h.group(1))
        elif rule == 'I9':
            h = re.match(r'^(.+)\.checked_sub\((.+)\)\.unwrap_or_default\(\)$', flat, re.S)
            if not h:
                raise GenError('I9 shape mismatch: %s' % flat)
            new = 'idiom_checked_sub_or_default(%s, %s)' % h.groups()
        elif rule == 'I28':
            h = re.match(r'^\(0\.\.(?P<n>.+?)\)\s*\.map\(\|_\|\s*(?P<e>.+)\)\s*\.collect(?:::<Result<Vec<(?P<t>.+)>>>)?\(\)(?P<q>\?)?$', anchor, re.S)
            if not h or (h.group('t') is None) != (h.group('q') is None):
                raise GenError('I28 shape mismatch: %s' % flat)
            sect = {'pre': [], 'inv': [], 'top': [], 'body': []}
            cur = 'inv'
            for (ln, tl) in (raw or []):
                mm3 = re.match(r'\s*//--(pre|inv|top|body)\s*$', ln)
                if mm3:
                    cur = mm3.group(1)
                else:
                    sect[cur].append((ln, tl))
            n0, n1 = a + h.start('n'), a + h.end('n')
            e0, e1 = a + h.start('e'), a + h.end('e')
            d = {'kind': 'idiom-I28', 'arg': rest, 'tline': tline}
            if h.group('t') is not None:
                head = '{ let mut v__: Vec<%s> = Vec::new(); ' % h.group('t')
                tail = '} v__ }'
            else:
                head = '{ let mut v__ = Vec::new(); '
                tail = '} Ok(v__) }'
            ed.replace(a, a + 1, head, 'I28')
            if sect['pre']:
                ed.insert(a + 1, sect['pre'], d)
            ed.replace(a + 1, n0, 'for i__ in it__: 0..', 'I28')
            ed.replace(n1, e0, ' ', 'I28')
            ed.insert(e0, sect['inv'] + [('{', tline)] + sect['top'] + [('let x__ = ', tline)], d)
            ed.replace(e1, b, '?; v__.push(x__);', 'I28')
            ed.insert(b, sect['body'] + [(tail, tline)], d)
            log['idioms'].append(dict(inst, new=head + 'for i__ in 0..N { let x__ = E?; v__.push(x__); ' + tail))
            return
        elif rule == 'I25':
            sq = re.sub(r'\s+', '', anchor)
            h = re.match(r'^([\w\.]+)\.chunks\(2\)\.filter\(\|c\|c\.len\(\)==2\)\.map\(\|c\|sha256d::Hash::hash\(&\[c\[0\],c\[1\]\]\.concat\(\)\)\)\.collect::<Vec<sha256d::Hash>>\(\)$', sq)
            if not h:
                raise GenError('I25 shape mismatch: %s' % sq)
            new = 'idiom_hash_pairs(&%s)' % h.group(1)
        elif rule == 'I26':
            sq = re.sub(r'\s+', '', anchor)
            h = re.match(r'^\[&(\w+)\[\.\.\],&(\w+)\[\.\.\]\]\.concat\(\)$', sq)
            if not h:
                raise GenError('I26 shape mismatch: %s' % sq)
            new = 'idiom_concat_hashes(%s, %s)' % h.groups()
        elif rule == 'I27':
            sq = re.sub(r'\s+', '', anchor)
            h = re.match(r'^([\w\.]+)\.iter\(\)\.map\(\|tx\|tx\.hash\)\.collect::<Vec<sha256d::Hash>>\(\)$', sq)
            if not h:
                raise GenError('I27 shape mismatch: %s' % sq)
            new = 'idiom_tx_hashes(&%s)' % h.group(1)
        elif rule == 'I10':
            h = re.match(r'^&sha256d::Hash::hash\(&(\w+)\)\[(\d+)\.\.(\d+)\]$', flat)
            if not h:
                raise GenError('I10 shape mismatch: %s' % flat)
            new = '&idiom_sha256d_slice(&%s, %s, %s)' % h.groups()
        elif rule == 'A1':
            if len(parts) != 2:
                raise GenError('A1 needs `expr` => `Type`')
            new = 'havoc::<%s>()' % parts[1]
        else:
            raise GenError('idiom %s not anchor-based' % rule)
        ed.replace(a, b, new, rule)
        inst['new'] = new
    log['idioms'].append(inst)


def build_type(repo, blk, log):
    m = re.match(r'(\S+)\s*::\s*(struct|enum|const|static)\s+(\w+)\s*$', blk.header)
    if not m:
        raise GenError('bad //@extract type header: %s' % blk.header)
    rel, kind, name = m.groups()
    src = repo.source(rel)
    try:
        it = src.find_type(kind, name)
    except rsx.ScanError as e:
        raise GenError(str(e))
    text = it.text
    ed = Edits(text)
    attrs = []
    for (word, rest, raw, tline) in blk.subs:
        if word == 'attrs':
            attrs = raw
        else:
            raise GenError('unknown directive //@%s in type block' % word)
    if it.vis != 'pub':
        ed.replace(0, len(it.vis), 'pub' + ('' if it.vis else ' '), 'D2')
    if kind == 'struct':
        toks = rsx.tokenize(text)
        pair = rsx.match_brackets(toks)
        opens = [i for i, t in enumerate(toks) if t.text in '{(' and t.kind == 'punct']
        if opens:
            o = opens[0]
            # skip generics: first `{` or `(` after the name
            c = pair[o]
            i = o + 1
            expect_field = True
            while i < c:
                t = toks[i]
                if t.kind == 'punct' and t.text in '([{<':
                    if t.text == '<':
                        # generic args in a field type: skip to matching '>' (no shifts in types)
                        depth = 1
                        i += 1
                        while i < c and depth:
                            if toks[i].text == '<':
                                depth += 1
                            elif toks[i].text == '>':
                                depth -= 1
                            i += 1
                        continue
                    i = pair[i] + 1
                    continue
                if t.kind == 'punct' and t.text == '#':
                    i = pair[i + 1] + 1   # field attribute
                    continue
                if expect_field and t.kind == 'ident':
                    if t.text != 'pub':
                        ed.replace(t.start, t.start, 'pub ', 'D2')
                    expect_field = False
                if t.kind == 'punct' and t.text == ',':
                    expect_field = True
                i += 1
    segs, originals = ed.render(None)
    gen = ''.join(s for s, _ in segs)
    if squash(erase(gen, originals)) != squash(text):
        raise GenError('self-check failed for type %s' % name)
    pre = []
    if attrs:
        pre.append(('/*@I{*/', ('mark', None)))
        for (ln, tline) in attrs:
            pre.append((ln + '\n', ('ins', {'kind': 'attrs', 'tline': tline}, None, tline)))
        pre.append(('/*@}*/', ('mark', None)))
    log['items'].append({'item': name, 'kind': kind, 'file': rel, 'line': it.line,
                         'dropped_attrs': it.attrs, 'rewrites': [dict(o) for o in originals],
                         'self_check': 'erase(generated)==repo'})
    base = it.start

    return name, pre + segs, (lambda off: {'file': rel, 'line': src.line_of(base + off)})


class Repo:
    def __init__(self, root):
        self.root = root
        self._cache = {}

    def source(self, rel):
        if rel not in self._cache:
            p = os.path.join(self.root, rel)
            if not os.path.exists(p):
                raise GenError('repository file missing: %s' % rel)
            try:
                self._cache[rel] = rsx.Source(p, rel)
            except rsx.ScanError as e:
                raise GenError('%s: %s' % (rel, e))
        return self._cache[rel]


def generate(template, repo_root, out_rs, out_map, abstract=()):
    repo = Repo(repo_root)
    log = {'template': template, 'items': [], 'idioms': []}
    parts = parse_template(template)
    out_lines = []      # text pieces
    origins = []        # per output line: list of origin dicts
    cur_line = ['']

    def emit(text, origin):
        # distribute `text` over output lines, recording origin for non-blank pieces
        pieces = text.split('\n')
        for k, piece in enumerate(pieces):
            if k > 0:
                out_lines.append(cur_line[0])
                cur_line[0] = ''
                origins.append([])
            if len(origins) == 0:
                origins.append([])
            cur_line[0] += piece
            if piece.strip() and origin is not None:
                origins[-1].append(origin(k) if callable(origin) else origin)

    origins.append([])
    for p in parts:
        if p[0] == 'line':
            emit(p[1] + '\n', {'src': 'template', 'line': p[2]})
            continue
        blk = p[1]
        if blk.kind == 'consts':
            # every top-level `const` of a source file (so that a body referring to a new constant still resolves)
            rel = blk.header.strip()
            src = repo.source(rel)
            for cname in src.top_level_consts():
                sub = Block('type', '%s :: const %s' % (rel, cname), blk.tline)
                item_id, segs, origin_of = build_type(repo, sub, log)
                for (txt, org) in segs:
                    if org[0] == 'mark':
                        emit(txt, None)
                    elif org[0] == 'repo':
                        emit(txt, dict(origin_of(org[1]), src='repo', item=item_id))
                    elif org[0] == 'rew':
                        emit(txt, dict(origin_of(org[2]), src='rewrite', item=item_id, rule=org[1]))
                    else:
                        emit(txt, None)
                emit('\n', None)
            continue
        if getattr(blk, 'optional', False):
            # `//@extract?`: the item may legitimately be absent (template follows the code across a repair)
            try:
                if blk.kind == 'fn':
                    item_id, segs, origin_of = build_fn(repo, blk, log, abstract)
                else:
                    item_id, segs, origin_of = build_type(repo, blk, log)
            except GenError as e:
                if 'matched 0 items' in str(e):
                    log.setdefault('skipped_optional', []).append(blk.header)
                    continue
                raise
        elif blk.kind == 'fn':
            item_id, segs, origin_of = build_fn(repo, blk, log, abstract)
        elif blk.kind == 'type':
            item_id, segs, origin_of = build_type(repo, blk, log)
        else:
            raise GenError('unknown extract kind %s' % blk.kind)
        for (txt, org) in segs:
            if org[0] == 'mark':
                emit(txt, None)
            elif org[0] == 'repo':
                off0 = org[1]

                def mk(k, txt=txt, off0=off0, origin_of=origin_of, item_id=item_id):
                    # offset of the k-th line piece within txt
                    idx = 0
                    for _ in range(k):
                        idx = txt.find('\n', idx) + 1
                    o = dict(origin_of(off0 + idx))
                    o.update({'src': 'repo', 'item': item_id})
                    return o
                emit(txt, mk)
            elif org[0] == 'ins':
                d, label, tline = org[1], org[2], org[3]
                emit(txt, {'src': 'insert', 'item': item_id, 'directive': d['kind'],
                           'arg': d.get('arg', ''), 'label': label, 'tline': tline})
            elif org[0] == 'rew':
                o = dict(origin_of(org[2]))
                o.update({'src': 'rewrite', 'item': item_id, 'rule': org[1]})
                emit(txt, o)
        emit('\n', None)
    out_lines.append(cur_line[0])
    text = '\n'.join(out_lines)
    os.makedirs(os.path.dirname(out_rs), exist_ok=True)
    with open(out_rs, 'w') as f:
        f.write(text)
    with open(out_map, 'w') as f:
        json.dump({'lines': origins, 'log': log}, f)
    return log


if __name__ == '__main__':
    try:
        lg = generate(sys.argv[1], sys.argv[2], sys.argv[3], sys.argv[4])
        print(json.dumps(lg, indent=1))
    except GenError as e:
        print('UNDECIDED: %s' % e)
        sys.exit(2)
