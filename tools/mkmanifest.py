#!/usr/bin/env python3
"""writes /verif/MANIFEST.json from tools/props.py + the per-property level texts below"""
import json, os, sys
HERE = os.path.dirname(os.path.abspath(__file__))
sys.path.insert(0, HERE)
import props

LEVEL = {
 'C01': ("Verus discharges, for all inputs and all counts, the exact-consumption contracts of every read_* function and VarUint::read_from on the verbatim-extracted bodies (decode fidelity, count == length, witness stripping: the txid pre-image is the witness-stripped wire form); Kani proves CompactSize decoding over all 2^72 prefixes and the 80-byte header / 36-byte outpoint round trips over their full domains. Verus also proves to_bytes() of every structure == its wire form and that double_sha256 hashes exactly those bytes (unit proto), and that CsvDump::on_block appends exactly one row per block / transaction / input / output, in order, to the right file, the totals being the number of rows written (unit csvdump). PARTIAL: the TEXT of a single row (format!/Display/arr_to_hex) is an uninterpreted function of the item; it is replayed by the native lane only.", "4 C01"),
 'C02': ("Verus proves on the real BlockchainParser::start/on_start/on_block/on_complete bodies that for every start s and every tip/--end M the callback observes on_start(s), exactly the heights s..=M in ascending order once each, and on_complete(last); an Err never reaches on_complete. ChainIndex::new is under contract too (unit chainindex): max_height == min(--end, tip), the trimmed index keeps exactly start-1..=max_height, and a lemma derives the driver's precondition from it.", "4 C02"),
 'C03': ("Verus proves read_varint == Bitcoin Core's VarInt decoder, BlockIndexRecord::from == the six varints in Core's order, get_block_index == select(all LevelDB pairs) (only 'b' keys), BlkFile::read_block reads the size prefix at offset-4 and the block at offset, ChainStorage::get_block uses exactly the record's file number and offset. Directory scan and LevelDB are trusted.", "4 C03"),
 'C04': ("Verus proves what the selection does (get_block_index == select) and that header-only records are never selected; the property's top-level obligation (only active-chain records are selected) is FALSE for this code: recorded KNOWN FINDING with a machine-checked refutation witness. Any other failing obligation is still a violation.", "4 C04"),
 'C05': ("Verus proves, for every byte string, that eval_from_bytes / eval_from_bytes_bitcoin / p2pk_to_string / is_provable_unspendable return the reference script type and the address of the reference hash / witness program and network; the rust-bitcoin predicate templates the proof rests on are validated against the real crate by Kani over all scripts up to the template length. Address text encoders and is_multisig are trusted.", "4 C05"),
 'C06': ("Verus proves on the verbatim custom.rs bodies, for every byte string: tokenisation by Bitcoin push rules (PUSHDATA length from the bytes after the opcode), template typing, Base58Check(version || hash) address bytes, and that evaluation never yields an error; read_uint, the opcode class table and the coin version bytes are proved by Kani over their full domains. Hash / base58 primitives are uninterpreted.", "4 C06"),
 'C07': ("Verus proves full-view postconditions of remove_unspents / insert_unspents / UnspentCsvDump::on_block: the map after a block is exactly apply_txs(map) (per tx: remove spent outpoints, then insert address-bearing outputs keyed txid||LE32(index)); nothing else changes. UnspentCsvDump::on_complete (unit dumps): header, then exactly one row per map entry with txid=key[0..32], index=LE32(key[32..36]), height, value, address; the text of one row is an uninterpreted function of those values.", "4 C07"),
 'C08': ("Verus proves Balances::on_block maintains exactly the same unspent map as C07. Balances::on_complete (unit dumps): the aggregation map holds exactly the addresses owning an unspent entry, each bound to the exact sum of its entries' values, and exactly one row per address follows the header (row text uninterpreted).", "4 C08"),
 'C09': ("Verus proves ChainStorage::verify accepts exactly (merkle ok && (genesis hash at 0 | prev-hash == indexed hash of h-1)), that get_block calls it iff --verify and propagates its error, and that an Err reaches process::exit before any further callback. utils::merkle_root is checked by bounded Kani harnesses (1..=5 leaves, stubbed hash) -- not counted as proved.", "4 C09"),
 'C11': ("Verus proves on the verbatim XorReader::{new,read,seek} bodies that an XorReader over an obfuscated stream satisfies the plain Read/Seek contract of the de-obfuscated file for every key length, offset and interleaving of seeks and reads (representation invariant absolute_pos == inner position).", "4 C11"),
 'C12': ("Verus proves read_block parses the AuxPoW section iff the coin has an activation version and header.version >= it, that read_aux_pow_extension consumes exactly coinbase tx (legacy or segwit) || hash || branch || branch || 80-byte header, and that the block hash is sha256d of the first 80 bytes only. Kani proves the per-coin thresholds.", "4 C12"),
 'C14': ("Panic-freedom is what a deductive verifier checks implicitly: every panic!/unwrap/expect/unreachable!/index/slice/arithmetic site in the extracted script-evaluation and transaction-parsing functions is a discharged obligation for ALL byte strings; plus evaluation never yields ScriptPattern::Error and scriptSig/witness bytes are only length-delimited.", "4 C14"),
 'C15': ("Kani proves get_base_reward for every height below 64 halvings and the is_coinbase predicate over its full domain; get_mean is checked by bounded harnesses (length <= 3, all u32 values) which found the u32-sum overflow (fixed). Verus proves the accumulation in SimpleStats::on_block / process_tx_pattern where units exist. Report rendering is unchecked.", "4 C15"),
 'C16': ("Verus proves the payload value the opreturn callback prints: for OP_RETURN + exactly one push (direct or PUSHDATA1/2/4) the Bitcoin evaluator yields utf8(pushed data) or \"\" and the fork-coin evaluator lossy_utf8(pushed data). OpReturn::on_block (unit opreturn): exactly one line per OP_RETURN output with non-empty payload text, in transaction/output order, carrying height, txid and that payload; stdout is an explicit ghost log, the text of a line an uninterpreted function of its arguments.", "4 C16"),
 'C17': ("Verus proves the close rule on the real ChainStorage::get_block / BlkFile::{open,close} bodies (file closed once height >= its per-file maximum, lazily reopened, no other file's state changes) and the inductive step lemma that every open file still holds a block of a height yet to come. The per-file maxima computed in ChainIndex::new are proved in unit chainindex.", "4 C17"),
}
NA = {
 'C10': "quantifies over OS fault sequences, crash points and process exit status; no function contract within reach of Verus/Kani expresses it (on_complete functions: format!/fs/map iteration; see DESIGN.md section 7)",
 'C13': "quantifies over thread schedules and sequences of process runs; Kani has no thread support, Verus no model of rayon (see DESIGN.md section 7)",
}

def main():
    ids = [json.loads(l)['id'] for l in open(os.path.join(HERE, '..', 'properties.jsonl'))]
    claimed = [p for p in ids if p in props.PROPS]
    m = {
     "version": 1,
     "setup_cmd": "/verif/bin/setup",
     "hooks": {"guard": "kani", "enable": "no hook commit in /repo: lane V reads source text; lane K appends `#[cfg(kani)] mod verif_kani` harness modules to a scratch copy under /verif/build/kani-src (cfg(kani) is set by cargo-kani only)",
               "baseline_off_cmd": "cd /repo && cargo test --workspace --no-fail-fast --offline", "source_commits": [], "add_only": True},
     "engines": [{"name": "check", "path": "/verif/bin/check", "serves_properties": claimed,
                  "kind_free_text": "contract-based deductive verification of the real code: Verus 0.2026.09.13 on function bodies extracted verbatim from /repo on every run (contracts/invariants spliced from /verif/units), Kani 0.68 function-level harnesses on a scratch copy of the real crate"}],
     "checks": [], "not_applicable": [],
     "notes": "exit 2 = undecided (lost anchor, unsupported construct, timeout): never an alarm. known_findings.json lists recorded findings (C04) and repaired defects (C02, C05, C06, C15, C16).",
    }
    for p in ids:
        if p in props.PROPS:
            cfg = props.PROPS[p]
            txt, ref = LEVEL[p]
            tech = []
            if cfg.get('units'): tech.append("Verus contracts on extracted bodies (units: %s)" % ', '.join(cfg['units']))
            if cfg.get('kani_quick') or cfg.get('kani_thorough'): tech.append("Kani harnesses on the real crate")
            if cfg.get('native'): tech.append("native replay of the same clauses on the real crate as counterexample search / bounded stand-in (never counted as proved)")
            m["checks"].append({
             "property_id": p, "quick_cmd": "/verif/bin/check %s --tier quick" % p, "thorough_cmd": "/verif/bin/check %s --tier thorough" % p,
             "evidence_file": "/verif/evidence/%s.json" % p, "engine": "check",
             "replay_cmd_template": "cat {path}",
             "level_claimed": {"category": "proof", "text": txt, "design_ref": "DESIGN.md section " + ref},
             "level_note": " | ".join(cfg.get('trusted', []))[:3000],
             "technique": "contract-based deductive verification: " + " + ".join(tech)})
        else:
            m["not_applicable"].append({"property_id": p, "reason": NA.get(p, "not claimed")})
    json.dump(m, open(os.path.join(HERE, '..', 'MANIFEST.json'), 'w'), indent=1)
    print('claimed', claimed)

if __name__ == '__main__':
    main()
