// harnesses appended to src/blockchain/proto/tx.rs

/// C07 (complete: all txids x all u32 indices): outpoint key = 32-byte txid || LE u32 index (36 bytes)
#[kani::proof]
#[kani::unwind(40)]
fn tx_outpoint_to_bytes_layout() {
    let t: [u8; 32] = kani::any();
    let index: u32 = kani::any();
    let o = TxOutpoint::new(sha256d::Hash::from_byte_array(t), index);
    let b = o.to_bytes();
    assert!(b.len() == 36);
    let mut i = 0;
    while i < 32 { assert!(b[i] == t[i]); i += 1; }
    assert!(u32::from_le_bytes([b[32], b[33], b[34], b[35]]) == index);
}
/// C15 (complete over the fields is_coinbase reads): null outpoint (zero txid, index 0xffffffff) and exactly one input
#[kani::proof]
#[kani::unwind(40)]
fn tx_is_coinbase_predicate() {
    let t: [u8; 32] = kani::any();
    let index: u32 = kani::any();
    let n: u8 = kani::any();
    let tx = EvaluatedTx {
        version: 1, in_count: VarUint::from(n),
        inputs: vec![TxInput { outpoint: TxOutpoint::new(sha256d::Hash::from_byte_array(t), index), script_len: VarUint::from(0u8), script_sig: vec![], seq_no: 0 }],
        out_count: VarUint::from(0u8), outputs: vec![], locktime: 0,
    };
    let zero = { let mut z = true; let mut i = 0; while i < 32 { if t[i] != 0 { z = false; } i += 1; } z };
    assert!(tx.is_coinbase() == (n == 1 && zero && index == 0xFFFF_FFFF));
}
