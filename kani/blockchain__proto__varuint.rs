// harnesses appended to src/blockchain/proto/varuint.rs

/// C01 (complete: all 2^72 nine-byte prefixes): VarUint::read_from decodes CompactSize exactly,
/// keeps the raw bytes it consumed (non-canonical encodings included) and consumes nothing else.
#[kani::proof]
#[kani::unwind(12)]
fn varuint_read_from_all_prefixes() {
    let data: [u8; 9] = kani::any();
    let mut cur = std::io::Cursor::new(&data[..]);
    let v = match VarUint::read_from(&mut cur) { Ok(v) => v, Err(_) => { assert!(false); return; } };
    let (val, n): (u64, usize) = match data[0] {
        0xfd => (u16::from_le_bytes([data[1], data[2]]) as u64, 3),
        0xfe => (u32::from_le_bytes([data[1], data[2], data[3], data[4]]) as u64, 5),
        0xff => (u64::from_le_bytes([data[1], data[2], data[3], data[4], data[5], data[6], data[7], data[8]]), 9),
        b => (b as u64, 1),
    };
    assert!(v.value == val);
    assert!(cur.position() == n as u64);
    let raw = v.to_bytes();
    assert!(raw.len() == n);
    let mut i = 0;
    while i < 9 {
        if i < n { assert!(raw[i] == data[i]); }
        i += 1;
    }
}
/// too-short inputs are errors, never a panic (complete over lengths 0..=8 of any content)
#[kani::proof]
#[kani::unwind(12)]
fn varuint_read_from_short_input() {
    let data: [u8; 9] = kani::any();
    let len: usize = kani::any();
    kani::assume(len <= 8);
    let need = match data[0] { 0xfd => 3, 0xfe => 5, 0xff => 9, _ => 1 };
    let mut cur = std::io::Cursor::new(&data[..len]);
    let r = VarUint::read_from(&mut cur);
    assert!(r.is_ok() == (len >= need));
}
