// harnesses appended to src/blockchain/proto/script/custom.rs

/// C06 (complete for the three sizes used; any data of 0..=6 bytes): read_uint = little-endian integer of the
/// first `size` bytes, Err(UnexpectedEof) iff fewer bytes are available -- the contract assumed in unit script_custom
fn read_uint_case(size: usize) {
    let data: [u8; 6] = kani::any();
    let len: usize = kani::any();
    kani::assume(len <= 6);
    let r = ScriptEvaluator::read_uint(&data[..len], size);
    if len < size {
        assert!(matches!(r, Err(ScriptError::UnexpectedEof)));
    } else {
        let mut want: usize = 0;
        let mut i = 0;
        while i < size { want += (data[i] as usize) << (8 * i); i += 1; }
        assert!(matches!(r, Ok(v) if v == want));
    }
}
#[kani::proof]
#[kani::unwind(8)]
fn custom_read_uint_1() { read_uint_case(1); }
#[kani::proof]
#[kani::unwind(8)]
fn custom_read_uint_2() { read_uint_case(2); }
#[kani::proof]
#[kani::unwind(8)]
fn custom_read_uint_4() { read_uint_case(4); }

/// C05/C06 (complete: all 256 opcodes): Opcode::classify(Legacy) equals the class_of table of prelude/opcodes.inc
#[kani::proof]
fn opcode_class_table() {
    let b: u8 = kani::any();
    let c = Opcode::from(b).classify(ClassifyContext::Legacy);
    let illegal = b == 0x65 || b == 0x66 || b == 0xff
        || b == 0x7e || b == 0x7f || b == 0x80 || b == 0x81 || b == 0x83 || b == 0x84 || b == 0x85 || b == 0x86
        || b == 0x8d || b == 0x8e || b == 0x95 || b == 0x96 || b == 0x97 || b == 0x98 || b == 0x99;
    let noop = b == 0x61 || (0xb0 <= b && b <= 0xb9);
    let ret = b == 0x6a || b == 0x50 || b == 0x89 || b == 0x8a || b == 0x62 || b >= 0xba;
    if illegal { assert!(c == Class::IllegalOp); }
    else if noop { assert!(c == Class::NoOp); }
    else if ret { assert!(c == Class::ReturnOp); }
    else if b == 0x4f { assert!(c == Class::PushNum(-1)); }
    else if 0x51 <= b && b <= 0x60 { assert!(c == Class::PushNum(b as i32 - 0x50)); }
    else if b <= 0x4b { assert!(c == Class::PushBytes(b as u32)); }
    else { assert!(matches!(c, Class::Ordinary(_))); }
}
/// the all::OP_* constants used by the templates
#[kani::proof]
fn opcode_constants() {
    assert!(all::OP_PUSHDATA1.to_u8() == 0x4c && all::OP_PUSHDATA2.to_u8() == 0x4d && all::OP_PUSHDATA4.to_u8() == 0x4e);
    assert!(all::OP_PUSHNUM_1.to_u8() == 0x51 && all::OP_PUSHNUM_16.to_u8() == 0x60);
    assert!(all::OP_PUSHNUM_2.to_u8() == 0x52 && all::OP_PUSHNUM_3.to_u8() == 0x53 && all::OP_RETURN.to_u8() == 0x6a);
    assert!(all::OP_DUP.to_u8() == 0x76 && all::OP_EQUAL.to_u8() == 0x87 && all::OP_EQUALVERIFY.to_u8() == 0x88);
    assert!(all::OP_HASH160.to_u8() == 0xa9 && all::OP_CHECKSIG.to_u8() == 0xac && all::OP_CHECKMULTISIG.to_u8() == 0xae);
}
