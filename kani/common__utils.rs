// harnesses appended to src/common/utils.rs as `#[cfg(kani)] mod verif_kani { use super::*; .. }`

/// C15 (bounded: slices of length 3, every u32 value): get_mean == exact mean of the mathematical sum
#[kani::proof]
#[kani::unwind(5)]
fn utils_get_mean_exact_len3() {
    let a: [u32; 3] = kani::any();
    let m = get_mean(&a);
    let s = a[0] as u64 + a[1] as u64 + a[2] as u64;
    assert!(m == s as f64 / 3.0);
}
#[kani::proof]
#[kani::unwind(3)]
fn utils_get_mean_exact_len1_and_empty() {
    let a: [u32; 1] = kani::any();
    assert!(get_mean(&a) == a[0] as f64);
    assert!(get_mean(&[]) == 0.0);
}

/// free-term hash: stands in for sha256d in the merkle harnesses.  The stub is only required to be
/// a function of its input, so what is checked is the tree SHAPE (which leaves are combined, in which
/// order, with last-hash duplication on odd levels).  h(x) = first 32 bytes folded with positions.
pub trait StubHash: Sized {
    fn from32(b: [u8; 32]) -> Self;
    // (Kani only accepts a *provided* trait method returning Self as a stub for Hash::hash)
    fn stub_hash(data: &[u8]) -> Self {
        // 64-byte inputs (two concatenated hashes): mix the two halves asymmetrically, byte-wise
        let mut out = [0u8; 32];
        let mut i = 0;
        while i < 32 {
            let a = if i < data.len() { data[i] } else { 0 };
            let b = if i + 32 < data.len() { data[i + 32] } else { 0 };
            out[i] = a.wrapping_mul(3).wrapping_add(b.wrapping_mul(5)).wrapping_add(1);
            i += 1;
        }
        Self::from32(out)
    }
}
impl StubHash for sha256d::Hash {
    fn from32(b: [u8; 32]) -> Self { sha256d::Hash::from_byte_array(b) }
}
fn h2(a: sha256d::Hash, b: sha256d::Hash) -> sha256d::Hash {
    let mut v = [0u8; 64];
    v[..32].copy_from_slice(&a[..]);
    v[32..].copy_from_slice(&b[..]);
    <sha256d::Hash as StubHash>::stub_hash(&v)
}
fn any_hash() -> sha256d::Hash {
    let b: [u8; 32] = kani::any();
    sha256d::Hash::from_byte_array(b)
}
/// C09 (bounded: 1..=4 leaves; hash stubbed): merkle_root == Bitcoin merkle tree with duplication
#[kani::proof]
#[kani::unwind(34)]
#[kani::stub(<sha256d::Hash as Hash>::hash, <sha256d::Hash as StubHash>::stub_hash)]
fn utils_merkle_root_1_to_3() {
    let a = any_hash(); let b = any_hash(); let c = any_hash();
    assert!(merkle_root(vec![a]) == a);
    assert!(merkle_root(vec![a, b]) == h2(a, b));
    assert!(merkle_root(vec![a, b, c]) == h2(h2(a, b), h2(c, c)));
}
#[kani::proof]
#[kani::unwind(34)]
#[kani::stub(<sha256d::Hash as Hash>::hash, <sha256d::Hash as StubHash>::stub_hash)]
fn utils_merkle_root_4_5() {
    let a = any_hash(); let b = any_hash(); let c = any_hash(); let d = any_hash(); let e = any_hash();
    assert!(merkle_root(vec![a, b, c, d]) == h2(h2(a, b), h2(c, d)));
    assert!(merkle_root(vec![a, b, c, d, e]) == h2(h2(h2(a, b), h2(c, d)), h2(h2(e, e), h2(e, e))));
}

/// C01 (complete over all 256 byte values): one byte renders as exactly two lowercase hex digits
#[kani::proof]
#[kani::unwind(4)]
fn utils_arr_to_hex_one_byte() {
    let b: u8 = kani::any();
    let s = arr_to_hex(&[b]);
    let bytes = s.as_bytes();
    assert!(bytes.len() == 2);
    let hex = |n: u8| if n < 10 { b'0' + n } else { b'a' + (n - 10) };
    assert!(bytes[0] == hex(b >> 4));
    assert!(bytes[1] == hex(b & 0x0f));
}
