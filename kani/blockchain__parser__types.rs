// harnesses appended to src/blockchain/parser/types.rs

/// C06/C12 (complete: the eight coins): published address version bytes, AuxPoW activation versions
#[kani::proof]
fn types_coin_parameter_table() {
    assert!(Bitcoin.version_id() == 0x00 && Bitcoin.aux_pow_activation_version().is_none());
    assert!(TestNet3.version_id() == 0x6f && TestNet3.aux_pow_activation_version().is_none());
    assert!(Namecoin.version_id() == 0x34 && Namecoin.aux_pow_activation_version() == Some(0x10101));
    assert!(Litecoin.version_id() == 0x30 && Litecoin.aux_pow_activation_version().is_none());
    assert!(Dogecoin.version_id() == 0x1e && Dogecoin.aux_pow_activation_version() == Some(0x620102));
    assert!(Myriadcoin.version_id() == 0x32 && Myriadcoin.aux_pow_activation_version().is_none());
    assert!(Unobtanium.version_id() == 0x82 && Unobtanium.aux_pow_activation_version().is_none());
    assert!(NoteBlockchain.version_id() == 0x35 && NoteBlockchain.aux_pow_activation_version().is_none());
}
