// harnesses appended to src/blockchain/proto/script/mod.rs

fn any_script(buf: &[u8; 42]) -> &Script {
    let len: usize = kani::any();
    kani::assume(len <= 42);
    Script::from_bytes(&buf[..len])
}
fn wit_ver(b: &[u8]) -> Option<u8> {
    if b.len() >= 4 && b.len() <= 42 && b[1] >= 2 && b[1] <= 40 && b.len() - 2 == b[1] as usize {
        if b[0] == 0 { Some(0) } else if b[0] >= 0x51 && b[0] <= 0x60 { Some(b[0] - 0x50) } else { None }
    } else { None }
}
/// C05 (complete: every byte string of length 0..=42): rust-bitcoin's predicates equal the byte templates
/// assumed in unit script_btc
#[kani::proof]
fn btc_predicates_match_templates() {
    let buf: [u8; 42] = kani::any();
    let s = any_script(&buf);
    let b = s.as_bytes();
    let n = b.len();
    assert!(s.is_op_return() == (n > 0 && b[0] == 0x6a));
    assert!(s.is_p2pkh() == (n == 25 && b[0] == 0x76 && b[1] == 0xa9 && b[2] == 0x14 && b[23] == 0x88 && b[24] == 0xac));
    assert!(s.is_p2sh() == (n == 23 && b[0] == 0xa9 && b[1] == 0x14 && b[22] == 0x87));
    let wv = wit_ver(b);
    assert!(s.is_witness_program() == wv.is_some());
    assert!(s.is_p2wpkh() == (n == 22 && wv == Some(0) && b[1] == 0x14));
    assert!(s.is_p2wsh() == (n == 34 && wv == Some(0) && b[1] == 0x20));
    assert!(s.is_p2tr() == (n == 34 && wv == Some(1) && b[1] == 0x20));
}
/// C05 (complete: every byte string of length 0..=67): is_p2pk template
#[kani::proof]
fn btc_is_p2pk_matches_template() {
    let buf: [u8; 67] = kani::any();
    let len: usize = kani::any();
    kani::assume(len <= 67);
    let s = Script::from_bytes(&buf[..len]);
    let b = s.as_bytes();
    let n = b.len();
    assert!(s.is_p2pk() == ((n == 67 && b[0] == 65 && b[66] == 0xac) || (n == 35 && b[0] == 33 && b[34] == 0xac)));
}
/// C05 (complete: every byte string of length 0..=42): Address::from_script succeeds exactly for
/// P2PKH, P2SH and witness programs other than version-0 programs of an illegal length
#[kani::proof]
fn btc_from_script_decision() {
    let buf: [u8; 42] = kani::any();
    let s = any_script(&buf);
    let b = s.as_bytes();
    let n = b.len();
    let p2pkh = n == 25 && b[0] == 0x76 && b[1] == 0xa9 && b[2] == 0x14 && b[23] == 0x88 && b[24] == 0xac;
    let p2sh = n == 23 && b[0] == 0xa9 && b[1] == 0x14 && b[22] == 0x87;
    let wv = wit_ver(b);
    let want = p2pkh || p2sh || match wv { Some(0) => n == 22 || n == 34, Some(_) => true, None => false };
    let r = Address::from_script(s, Network::Bitcoin);
    assert!(r.is_ok() == want);
    if let Err(e) = r {
        assert!((e == UnrecognizedScript) == (!p2pkh && !p2sh && wv.is_none()));
    }
}
/// C05/C14 (complete: all first bytes): is_provable_unspendable == first opcode class is ReturnOp / IllegalOp
#[kani::proof]
fn btc_is_provable_unspendable_first_byte() {
    let buf: [u8; 42] = kani::any();
    let s = any_script(&buf);
    let b = s.as_bytes();
    let want = match b.first() {
        Some(x) => { let c = Opcode::from(*x).classify(opcodes::ClassifyContext::Legacy); c == ReturnOp || c == IllegalOp }
        None => false,
    };
    assert!(is_provable_unspendable(s) == want);
}
