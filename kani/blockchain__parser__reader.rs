// harnesses appended to src/blockchain/parser/reader.rs

/// C01 (complete: all 2^640 headers): read_block_header o BlockHeader::to_bytes = identity on 80 bytes,
/// each field is the little-endian decoding of its slice
#[kani::proof]
#[kani::unwind(84)]
fn reader_header_roundtrip() {
    use crate::blockchain::proto::ToRaw;
    let data: [u8; 80] = kani::any();
    let mut cur = std::io::Cursor::new(&data[..]);
    let h = match cur.read_block_header() { Ok(h) => h, Err(_) => { assert!(false); return; } };
    assert!(cur.position() == 80);
    assert!(h.version == u32::from_le_bytes([data[0], data[1], data[2], data[3]]));
    assert!(h.timestamp == u32::from_le_bytes([data[68], data[69], data[70], data[71]]));
    assert!(h.bits == u32::from_le_bytes([data[72], data[73], data[74], data[75]]));
    assert!(h.nonce == u32::from_le_bytes([data[76], data[77], data[78], data[79]]));
    let back = h.to_bytes();
    assert!(back.len() == 80);
    let mut i = 0;
    while i < 80 { assert!(back[i] == data[i]); i += 1; }
}
/// C01/C07 (complete: all 36-byte strings): read_tx_outpoint o TxOutpoint::to_bytes = identity
#[kani::proof]
#[kani::unwind(40)]
fn reader_outpoint_roundtrip() {
    use crate::blockchain::proto::ToRaw;
    let data: [u8; 36] = kani::any();
    let mut cur = std::io::Cursor::new(&data[..]);
    let o = match cur.read_tx_outpoint() { Ok(o) => o, Err(_) => { assert!(false); return; } };
    assert!(cur.position() == 36);
    let back = o.to_bytes();
    assert!(back.len() == 36);
    let mut i = 0;
    while i < 36 { assert!(back[i] == data[i]); i += 1; }
}
