// harnesses appended to src/blockchain/proto/block.rs

/// C15 (complete over every height below 64 halvings): base reward = 50 coins halved every 210000 heights
#[kani::proof]
fn block_base_reward_halving() {
    let h: u64 = kani::any();
    kani::assume(h < 64 * 210000);
    let k = h / 210000;
    assert!(get_base_reward(h) == 5_000_000_000u64 >> k);
    if k >= 33 { assert!(get_base_reward(h) == 0); }
}
