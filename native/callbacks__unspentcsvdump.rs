// lane N suite appended to src/callbacks/unspentcsvdump.rs   (C07)

/// C07 (bounded: 3 random histories of 12 blocks x 4 ranges): the unspent dump is a header plus exactly one row per
/// unspent address-bearing output of the range
#[test]
fn c07_unspent_dump_matches_reference() {
    let suite = "c07_unspent_dump_matches_reference";
    let mut cases = 0;
    for salt in 0..(if thorough() { 16u64 } else { 3 }) {
        let mut rng = Rng::new(70 + salt);
        let mut chain = gen_history(&mut rng, 12);
        relink(&mut chain);
        let d = simple_dir(&chain); d.write();
        for (s, e) in [(0u64, None), (0, Some(6)), (4, None), (3, Some(9))] {
            cases += 1;
            let last = e.unwrap_or(11).min(11);
            let out = tempfile::tempdir().unwrap();
            std::fs::write(out.path().join("unspent.csv.tmp"), "stale;row;of;an;aborted;run\n".repeat(5000)).unwrap();   // leftover of an aborted run
            let m = UnspentCsvDump::build_subcommand().get_matches_from(vec!["unspentcsvdump", out.path().to_str().unwrap()]);
            let cb = UnspentCsvDump::new(&m).unwrap();
            let inp = format!("history {} range {}..{:?}", salt, s, e);
            if let Err(x) = drive_with(d.path(), "bitcoin", s, e, false, Box::new(cb)) { fail(suite, "C07:run_completes", &inp, &x, "Ok"); continue; }
            let f = out.path().join(format!("unspent-{}-{}.csv", s, last));
            let lines = csv_lines(&f);
            if !check(!lines.is_empty() && lines[0] == "txid;indexOut;height;value;address", suite, "C07:header_row", &inp, &format!("{:?}", lines.first()), "txid;indexOut;height;value;address") { continue; }
            let mut got: Vec<String> = lines[1..].to_vec(); got.sort();
            let mut want: Vec<String> = ref_utxo(&chain, s, last).iter().map(|((t, i), (h, v, a))| format!("{};{};{};{};{}", t, i, h, v, a)).collect(); want.sort();
            let extra: Vec<&String> = got.iter().filter(|g| !want.contains(g)).collect();
            let missing: Vec<&String> = want.iter().filter(|w| !got.contains(w)).collect();
            check(extra.is_empty(), suite, "C07:nothing_else_is_listed", &inp, &format!("{} extra rows e.g. {:?}", extra.len(), extra.first()), "no extra rows");
            check(missing.is_empty(), suite, "C07:every_unspent_address_bearing_output_is_listed", &inp, &format!("{} missing rows e.g. {:?}", missing.len(), missing.first()), "no missing rows");
            let mut dd = got.clone(); dd.dedup();
            check(dd.len() == got.len(), suite, "C07:nothing_is_listed_twice", &inp, &format!("{} rows, {} distinct", got.len(), dd.len()), "all distinct");
        }
    }
    finish(suite, cases);
}

/// C07 (bounded: fan-out transactions with 252 / 253 / 254 / 300 / 65536 / 65537 outputs, a 253-byte script, 253 inputs): counts and
/// lengths on both sides of the CompactSize width boundary -- the rows carry the real txid (so later spends of it are
/// honoured) and every output index
#[test]
fn c07_compactsize_boundary_fanouts() {
    let suite = "c07_compactsize_boundary_fanouts";
    let mut cases = 0;
    for n in [252usize, 253, 254, 300, 65_536, 65_537] {
        cases += 1;
        // (every 7th output pays a witness program of a future version: program lengths 2..=40, addresses up to 74 characters)
        let fan = TxSpec::new(vec![TxIn::new([0x33; 32], 5, vec![0x51])], (0..n).map(|i| TxOut::new(10 + i as u64,
            if i % 7 == 3 { let l = 2 + (i / 7) % 39; let mut sc = vec![0x51 + ((i / 7) % 16) as u8, l as u8]; sc.extend(vec![(i % 256) as u8; l]); sc } else { p2pkh_script(&[(i % 251) as u8; 20]) })).collect());
        let fid = fan.txid();
        // a second block spends the first and the last output of the fan-out (by its real txid) and pays through a long script
        let mut long = vec![0x6a, 0x4c, 0xfa]; long.extend(vec![0x41u8; 250]);            // 253-byte script (no address)
        let spend = TxSpec::new(vec![TxIn::new(fid, 0, vec![]), TxIn::new(fid, (n - 1) as u32, vec![])], vec![TxOut::new(7, p2pkh_script(&[0xee; 20])), TxOut::new(0, long)]);
        // a third block gathers 253 outputs of the fan-out... only when it has that many
        let gather: Vec<TxSpec> = if n >= 254 { vec![TxSpec::new((1..254).map(|i| TxIn::new(fid, i as u32, vec![])).collect(), vec![TxOut::new(9, p2pkh_script(&[0xdd; 20]))])] } else { vec![] };
        let mut blocks = vec![vec![fan], vec![spend], gather].into_iter();
        let mut chain = make_chain(4, &mut |h| if h == 0 { vec![] } else { blocks.next().unwrap() });
        relink(&mut chain);
        let d = simple_dir(&chain); d.write();
        let out = tempfile::tempdir().unwrap();
        let m = UnspentCsvDump::build_subcommand().get_matches_from(vec!["unspentcsvdump", out.path().to_str().unwrap()]);
        let cb = UnspentCsvDump::new(&m).unwrap();
        let inp = format!("fan-out of {} outputs, first and last spent by txid{}", n, if n >= 254 { ", 253 more gathered by one tx" } else { "" });
        if let Err(x) = drive_with(d.path(), "bitcoin", 0, None, false, Box::new(cb)) { fail(suite, "C07:run_completes", &inp, &x, "Ok"); continue; }
        let lines = csv_lines(&out.path().join("unspent-0-3.csv"));
        let mut got: Vec<String> = lines.iter().skip(1).cloned().collect(); got.sort();
        let mut want: Vec<String> = ref_utxo(&chain, 0, 3).iter().map(|((t, i), (h, v, a))| format!("{};{};{};{};{}", t, i, h, v, a)).collect(); want.sort();
        let (gs, ws): (std::collections::HashSet<&String>, std::collections::HashSet<&String>) = (got.iter().collect(), want.iter().collect());
        let extra: Vec<&String> = got.iter().filter(|g| !ws.contains(g)).collect();
        let missing: Vec<&String> = want.iter().filter(|w| !gs.contains(w)).collect();
        check(extra.is_empty(), suite, "C07:nothing_else_is_listed", &inp, &format!("{} extra rows e.g. {:?}", extra.len(), extra.first()), "no extra rows");
        check(missing.is_empty(), suite, "C07:every_unspent_address_bearing_output_is_listed", &inp, &format!("{} missing rows e.g. {:?}", missing.len(), missing.first()), "no missing rows");
        check(got.len() == gs.len(), suite, "C07:nothing_is_listed_twice", &inp, &format!("{} rows, {} distinct", got.len(), gs.len()), "all distinct");
    }
    finish(suite, cases);
}

/// C07 (bounded: two hand-made histories): (1) values far above 21 million coins (fork coins have bigger supplies; the
/// value column is a plain u64) are listed like any other; (2) a duplicated txid (byte-identical coinbase, legal before
/// BIP30/34) re-created AND spent inside the re-creating block leaves no row of the earlier copy behind
#[test]
fn c07_large_values_and_respent_duplicates() {
    let suite = "c07_large_values_and_respent_duplicates";
    let mut cases = 0;
    // (1)
    { cases += 1;
      let vals = [5_000_000_000_000_000u64, 21_000_000 * 100_000_000 + 1, 21_000_000 * 100_000_000, u64::MAX, 700_000_000, 1u64 << 63];
      let mut chain = make_chain(3, &mut |h| if h == 1 { vec![TxSpec::new(vec![TxIn::new([0x21; 32], 0, vec![0x51])], vals.iter().enumerate().map(|(i, v)| TxOut::new(*v, p2pkh_script(&[0x30 + i as u8; 20]))).collect())] } else { vec![] });
      relink(&mut chain);
      let d = simple_dir(&chain); d.write();
      for coin in ["bitcoin", "dogecoin"] {
          let out = tempfile::tempdir().unwrap();
          let m = UnspentCsvDump::build_subcommand().get_matches_from(vec!["unspentcsvdump", out.path().to_str().unwrap()]);
          let cb = UnspentCsvDump::new(&m).unwrap();
          let inp = format!("{}: outputs worth {:?}", coin, vals);
          if let Err(x) = drive_with(d.path(), coin, 0, None, false, Box::new(cb)) { fail(suite, "C07:run_completes", &inp, &x, "Ok"); continue; }
          let lines = csv_lines(&out.path().join("unspent-0-2.csv"));
          let id = hex_rev(&chain[1].txs[1].txid());
          for (i, v) in vals.iter().enumerate() {
              let hit = lines.iter().any(|l| l.starts_with(&format!("{};{};1;{};", id, i, v)));
              check(hit, suite, "C07:every_unspent_address_bearing_output_is_listed", &format!("{} output {} worth {}", inp, i, v), "no such row", "one row with that value");
          }
      } }
    // (2)
    { cases += 1;
      let cb_tx = TxSpec::new(vec![TxIn::coinbase(7)], vec![TxOut::new(50_0000_0000, p2pkh_script(&[0xA1; 20]))]);
      let cbid = cb_tx.txid();
      let spend = TxSpec::new(vec![TxIn::new(cbid, 0, vec![0x51])], vec![TxOut::new(49_9999_0000, p2pkh_script(&[0xB2; 20]))]);
      let mut chain = make_chain(3, &mut |h| if h == 2 { vec![spend.clone()] } else { vec![] });
      chain[1].txs[0] = cb_tx.clone(); chain[2].txs[0] = cb_tx.clone();          // heights 1 and 2 carry the byte-identical coinbase
      relink(&mut chain);
      let d = simple_dir(&chain); d.write();
      let out = tempfile::tempdir().unwrap();
      let m = UnspentCsvDump::build_subcommand().get_matches_from(vec!["unspentcsvdump", out.path().to_str().unwrap()]);
      let cb = UnspentCsvDump::new(&m).unwrap();
      let inp = "coinbase X at height 1, the byte-identical coinbase X again at height 2 together with a transaction spending X:0";
      match drive_with(d.path(), "bitcoin", 0, None, false, Box::new(cb)) {
          Err(x) => fail(suite, "C07:run_completes", inp, &x, "Ok"),
          Ok(()) => {
              let mut got: Vec<String> = csv_lines(&out.path().join("unspent-0-2.csv")).into_iter().skip(1).collect(); got.sort();
              let mut want: Vec<String> = ref_utxo(&chain, 0, 2).iter().map(|((t, i), (h, v, a))| format!("{};{};{};{};{}", t, i, h, v, a)).collect(); want.sort();
              check(got == want, suite, "C07:nothing_else_is_listed", inp, &format!("{:?}", got), &format!("{:?}", want));
          }
      } }
    // (3) "later" means later: an input that names an output created FURTHER DOWN in the same block does not spend it (the
    // reference is to something that does not exist yet); the same outpoint referenced after its creation does
    { cases += 1;
      let parent = TxSpec::new(vec![TxIn::new([0x61; 32], 0, vec![0x51])], vec![TxOut::new(40, p2pkh_script(&[0xC1; 20])), TxOut::new(41, p2pkh_script(&[0xC2; 20])), TxOut::new(42, p2pkh_script(&[0xC3; 20]))]);
      let pid = parent.txid();
      let early = TxSpec::new(vec![TxIn::new(pid, 0, vec![0x51])], vec![TxOut::new(39, p2pkh_script(&[0xC4; 20]))]);
      let late = TxSpec::new(vec![TxIn::new(pid, 2, vec![0x51])], vec![TxOut::new(38, p2pkh_script(&[0xC5; 20]))]);
      let mut chain = make_chain(3, &mut |h| if h == 1 { vec![early.clone(), parent.clone(), late.clone()] } else { vec![] });
      relink(&mut chain);
      let d = simple_dir(&chain); d.write();
      let out = tempfile::tempdir().unwrap();
      let m = UnspentCsvDump::build_subcommand().get_matches_from(vec!["unspentcsvdump", out.path().to_str().unwrap()]);
      let cb = UnspentCsvDump::new(&m).unwrap();
      let inp = "one block: `early` (input names parent:0), then `parent` (3 outputs), then `late` (spends parent:2)";
      match drive_with(d.path(), "bitcoin", 0, None, false, Box::new(cb)) {
          Err(x) => fail(suite, "C07:run_completes", inp, &x, "Ok"),
          Ok(()) => {
              let mut got: Vec<String> = csv_lines(&out.path().join("unspent-0-2.csv")).into_iter().skip(1).collect(); got.sort();
              let mut want: Vec<String> = ref_utxo(&chain, 0, 2).iter().map(|((t, i), (h, v, a))| format!("{};{};{};{};{}", t, i, h, v, a)).collect(); want.sort();
              let p0 = format!("{};0;1;40;", hex_rev(&pid));
              check(want.iter().any(|w| w.starts_with(&p0)), suite, "C07:reference_self_check", inp, "reference drops parent:0", "reference keeps parent:0");
              check(got == want, suite, "C07:every_unspent_address_bearing_output_is_listed", inp, &format!("{:?}", got), &format!("{:?}", want));
          }
      } }
    finish(suite, cases);
}
