// lane N suite appended to src/callbacks/opreturn.rs   (C16: the printed lines)

/// C16 (bounded: the payload catalogue below x every push form that can carry it x {bitcoin, litecoin} x 2 ranges): opreturn
/// prints one line per OP_RETURN-with-single-push output whose payload is non-empty (and valid UTF-8 on Bitcoin), carrying
/// height, txid and exactly the payload, in chain order; every other output prints nothing
#[test]
fn c16_opreturn_printed_lines() {
    let suite = "c16_opreturn_printed_lines";
    let mut rng = Rng::new(16);
    let payloads: Vec<Vec<u8>> = vec![b"hello world".to_vec(), "gr\u{fc}\u{df}e \u{4e16}\u{754c}".as_bytes().to_vec(), vec![0x41; 75], vec![0x42; 76], vec![0x43; 80],
        vec![0x44; 255], vec![0x45; 256], vec![0x46; 3000], vec![0x47; 249], vec![0x48; 250], vec![0x49; 251], vec![0x4a; 252], vec![0x4b; 253], vec![0xff, 0xfe, 0x41], vec![0xc3], vec![], "caf\u{fffd} au lait".as_bytes().to_vec(), vec![0xef, 0xbf, 0xbd], b"hi\xe2\x82".to_vec(), b"ok\xf0\x9f\x98".to_vec(), b"hi\xe2\x82A".to_vec(), b"a".to_vec(), b"  spaced  ".to_vec()];
    let push = |d: &[u8], form: u8| -> Vec<u8> { let mut v = match form {
        0 => vec![d.len() as u8], 1 => vec![0x4c, d.len() as u8],
        2 => { let mut x = vec![0x4d]; x.extend_from_slice(&(d.len() as u16).to_le_bytes()); x }
        _ => { let mut x = vec![0x4e]; x.extend_from_slice(&(d.len() as u32).to_le_bytes()); x } }; v.extend_from_slice(d); v };
    // one transaction per (payload, form): outputs = [p2pkh, OP_RETURN push, nonstandard, OP_RETURN push (same payload again)]
    let mut txs: Vec<(TxSpec, Vec<u8>)> = vec![];
    let mut k = 0u8;
    for p in &payloads { for form in 0..4u8 {
        if (form == 0 && p.len() > 75) || (form == 1 && p.len() > 255) { continue; }
        k = k.wrapping_add(1);
        let s = [vec![0x6a], push(p, form)].concat();
        let tx = TxSpec::new(vec![TxIn::new([k; 32], form as u32, vec![0x51])], vec![TxOut::new(1, p2pkh_script(&[k; 20])), TxOut::new(0, s.clone()), TxOut::new(2, vec![0x51]), TxOut::new(if k % 2 == 0 { 100_000 } else { 1 }, s)]);   // (the second OP_RETURN output carries a value: burned coins are still printed)
        txs.push((tx, p.clone()));
    } }
    // an OP_RETURN output with an EMPTY payload in front of qualifying ones in the same transaction (and in the next one)
    { let mk = |p: &[u8]| [vec![0x6a], push(p, 0)].concat();
      let tx = TxSpec::new(vec![TxIn::new([0xE0; 32], 0, vec![0x51])], vec![TxOut::new(0, vec![0x6a, 0x00]), TxOut::new(0, mk(b"second")), TxOut::new(0, vec![0x6a]), TxOut::new(0, mk(b"third"))]);
      txs.push((tx, b"\x00multi".to_vec())); }
    // also scripts that are NOT op_return: must print nothing
    txs.push((TxSpec::new(vec![TxIn::new([0xEE; 32], 0, vec![])], vec![TxOut::new(5, vec![0x51, 0x6a, 0x02, 0x68, 0x69]), TxOut::new(5, vec![0x02, 0x6a, 0x6a])]), vec![]));
    // three single-transaction blocks at the end: the only printing transaction sits at the same position in consecutive blocks
    for (i, txt) in ["solo one", "solo two", "solo three"].iter().enumerate() {
        let sc = [vec![0x6a], push(txt.as_bytes(), 0)].concat();
        txs.push((TxSpec::new(vec![TxIn::new([0xD0 + i as u8; 32], 0, vec![0x51])], vec![TxOut::new(0, sc.clone()), TxOut::new(0, sc)]), txt.as_bytes().to_vec())); }
    let per_block = 9;
    let nfull = (txs.len() - 3 + per_block - 1) / per_block;
    let nblocks = nfull + 3;
    let mut it = txs.iter().map(|x| x.0.clone()).collect::<Vec<_>>().into_iter();
    let mut left = txs.len();
    let mut chain = make_chain(nblocks as u64 + 1, &mut |h| if h == 0 { vec![] } else {
        let take = if left > 3 { per_block.min(left - 3) } else { 1 };
        left -= take.min(left);
        (0..take).filter_map(|_| it.next()).collect() });
    relink(&mut chain);
    let d = simple_dir(&chain); d.write();
    let _ = rng.next();
    let mut cases = 0;
    for coin in ["bitcoin", "litecoin"] { for (s, e) in [(0u64, None), (2u64, Some(nblocks as u64 - 1))] {
        cases += 1;
        let last = e.unwrap_or(nblocks as u64);
        let blocks = match fetch_blocks(d.path(), coin, s, last, false) { Ok(b) => b, Err(m) => { fail(suite, "C16:chain_parses", coin, &m, "Ok"); continue; } };
        let text = capture_stdout(|| { let mut cb = OpReturn::new(&OpReturn::build_subcommand().get_matches_from(vec!["opreturn"])).unwrap(); cb.on_start(s).unwrap(); for (i, b) in blocks.iter().enumerate() { cb.on_block(b, s + i as u64).unwrap(); } cb.on_complete(last).unwrap(); });
        // expected lines, in chain order
        let mut want: Vec<String> = vec![];
        let mut mine: std::collections::HashSet<String> = std::collections::HashSet::new();
        for h in s..=last { for t in &chain[h as usize].txs {
            let id = hex_rev(&t.txid()); mine.insert(id.clone());
            for o in &t.outputs {
                if o.script.first() != Some(&0x6a) || o.script.len() < 2 { continue; }
                let p = match txs.iter().find(|x| x.0.txid() == t.txid()) { Some(x) => x.1.clone(), None => continue };
                // (the multi-output transaction: the payload is the single push of each output itself)
                let p = if p.starts_with(b"\x00multi") { if o.script.len() >= 2 && o.script[1] as usize == o.script.len() - 2 { o.script[2..].to_vec() } else { vec![] } } else { p };
                let shown = if coin == "bitcoin" { String::from_utf8(p).unwrap_or_default() } else { String::from_utf8_lossy(&p).into_owned() };
                if !shown.is_empty() { want.push(format!("height: {: <9} txid: {}    data: {}", h, id, shown)); }
            } } }
        let got: Vec<String> = text.lines().filter(|l| l.starts_with("height: ") && mine.iter().any(|id| l.contains(id.as_str()))).map(|l| l.to_string()).collect();
        let inp = format!("{} range {}..{:?}", coin, s, e);
        if got != want {
            let i = (0..got.len().max(want.len())).find(|i| got.get(*i) != want.get(*i)).unwrap_or(0);
            let cut = |o: Option<&String>| o.map(|s| if s.len() > 150 { format!("{}..", &s[..150]) } else { s.clone() }).unwrap_or_else(|| "<no line>".into());
            fail(suite, "C16:one_line_per_non_empty_payload_in_chain_order", &format!("{} ({} lines printed, {} expected), first difference at line {}", inp, got.len(), want.len(), i), &cut(got.get(i)), &cut(want.get(i)));
        }
    } }
    finish(suite, cases);
}
