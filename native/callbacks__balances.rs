// lane N suite appended to src/callbacks/balances.rs   (C08)

/// C08 (bounded: 3 random histories x 4 ranges; one transaction with 65 800 outputs, addresses at the indices around 2^8 and
/// 2^16): one row per address owning an unspent output, balance = exact sum
#[test]
fn c08_balances_match_reference() {
    let suite = "c08_balances_match_reference";
    let mut cases = 0;
    for salt in 0..(if thorough() { 16u64 } else { 3 }) {
        let mut rng = Rng::new(70 + salt);
        let mut chain = gen_history(&mut rng, 12);
        relink(&mut chain);
        let d = simple_dir(&chain); d.write();
        for (s, e) in [(0u64, None), (0, Some(6)), (4, None), (3, Some(9))] {
            cases += 1;
            let last = e.unwrap_or(11).min(11);
            let out = tempfile::tempdir().unwrap();
            std::fs::write(out.path().join("balances.csv.tmp"), "stale;row\n".repeat(5000)).unwrap();   // leftover of an aborted run
            let m = Balances::build_subcommand().get_matches_from(vec!["balances", out.path().to_str().unwrap()]);
            let cb = Balances::new(&m).unwrap();
            let inp = format!("history {} range {}..{:?}", salt, s, e);
            if let Err(x) = drive_with(d.path(), "bitcoin", s, e, false, Box::new(cb)) { fail(suite, "C08:run_completes", &inp, &x, "Ok"); continue; }
            let f = out.path().join(format!("balances-{}-{}.csv", s, last));
            let lines = csv_lines(&f);
            if !check(!lines.is_empty() && lines[0] == "address;balance", suite, "C08:header_row", &inp, &format!("{:?}", lines.first()), "address;balance") { continue; }
            let mut sums: std::collections::BTreeMap<String, u64> = std::collections::BTreeMap::new();
            for (_, (_h, v, a)) in ref_utxo(&chain, s, last) { *sums.entry(a).or_insert(0) += v; }
            let mut got: Vec<String> = lines[1..].to_vec(); got.sort();
            let mut want: Vec<String> = sums.iter().map(|(a, v)| format!("{};{}", a, v)).collect(); want.sort();
            let extra: Vec<&String> = got.iter().filter(|g| !want.contains(g)).collect();
            let missing: Vec<&String> = want.iter().filter(|w| !got.contains(w)).collect();
            check(extra.is_empty() && missing.is_empty(), suite, "C08:one_row_per_address_with_the_exact_sum", &inp,
                  &format!("{} rows; {} unexpected e.g. {:?}; {} missing e.g. {:?}", got.len(), extra.len(), extra.first(), missing.len(), missing.first()), &format!("{} rows", want.len()));
        }
    }
    // no address owns anything (every output is OP_RETURN / nonstandard): header only, the file still exists
    {
        cases += 1;
        let chain = { let mut c: Vec<BlockSpec> = make_chain(3, &mut |_| vec![TxSpec::new(vec![TxIn::new([9; 32], 0, vec![])], vec![TxOut::new(5, vec![0x6a, 0x01, 0x41])])]);
            for b in c.iter_mut() { b.txs[0].outputs[0].script = vec![0x51]; } relink(&mut c); c };
        let d = simple_dir(&chain); d.write();
        let out = tempfile::tempdir().unwrap();
        let m = Balances::build_subcommand().get_matches_from(vec!["balances", out.path().to_str().unwrap()]);
        let r = drive_with(d.path(), "bitcoin", 0, None, false, Box::new(Balances::new(&m).unwrap()));
        let lines = csv_lines(&out.path().join("balances-0-2.csv"));
        check(r.is_ok() && lines == vec!["address;balance".to_string()], suite, "C08:header_row", "history in which no output carries an address", &format!("{:?} {:?}", r.err(), lines), "[\"address;balance\"]");
    }
    // output indices on both sides of every integer width (255/256, 65535/65536): each index is its own outpoint
    {
        cases += 1;
        let owners: Vec<(usize, u8)> = vec![(0, 0xD0), (255, 0xD1), (256, 0xD2), (65_535, 0xD3), (65_536, 0xD4), (512, 0xD0), (65_792, 0xD5)];
        let fan = TxSpec::new(vec![TxIn::new([0x44; 32], 1, vec![0x51])], (0..65_800usize).map(|i| match owners.iter().find(|(k, _)| *k == i) {
            Some((_, a)) => TxOut::new(1000 + i as u64, p2pkh_script(&[*a; 20])), None => TxOut::new(1, vec![]) }).collect());
        let fid = fan.txid();
        let spend = TxSpec::new(vec![TxIn::new(fid, 256, vec![]), TxIn::new(fid, 65_536, vec![])], vec![TxOut::new(7, p2pkh_script(&[0xD6; 20]))]);
        let mut blocks = vec![vec![fan], vec![], vec![spend]].into_iter();
        let mut chain = make_chain(4, &mut |h| if h == 0 { vec![] } else { blocks.next().unwrap() });
        relink(&mut chain);
        let d = simple_dir(&chain); d.write();
        for (s, e) in [(0u64, Some(2u64)), (0, None)] {
            let last = e.unwrap_or(3);
            let out = tempfile::tempdir().unwrap();
            let m = Balances::build_subcommand().get_matches_from(vec!["balances", out.path().to_str().unwrap()]);
            let inp = format!("one transaction with 65800 outputs, addresses at indices 0, 255, 256, 512, 65535, 65536, 65792; range {}..{:?} (256 and 65536 spent at height 3)", s, e);
            if let Err(x) = drive_with(d.path(), "bitcoin", s, e, false, Box::new(Balances::new(&m).unwrap())) { fail(suite, "C08:run_completes", &inp, &x, "Ok"); continue; }
            let lines = csv_lines(&out.path().join(format!("balances-{}-{}.csv", s, last)));
            let mut sums: std::collections::BTreeMap<String, u64> = std::collections::BTreeMap::new();
            for (_, (_h, v, a)) in ref_utxo(&chain, s, last) { *sums.entry(a).or_insert(0) += v; }
            let mut got: Vec<String> = lines.iter().skip(1).cloned().collect(); got.sort();
            let mut want: Vec<String> = sums.iter().map(|(a, v)| format!("{};{}", a, v)).collect(); want.sort();
            check(got == want, suite, "C08:one_row_per_address_with_the_exact_sum", &inp, &format!("{:?}", got), &format!("{:?}", want));
        }
    }
    finish(suite, cases);
}
