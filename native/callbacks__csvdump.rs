// lane N suite appended to src/callbacks/csvdump.rs   (C01)

fn boundary_chain() -> Vec<BlockSpec> {
    let mut rng = Rng::new(1);
    let thorough = std::env::var("VERIF_TIER").map(|t| t == "thorough").unwrap_or(false);
    let mut k = 0u32;
    let mut idn = move || { k += 1; let mut id = [0u8; 32]; id[..4].copy_from_slice(&k.to_le_bytes()); id[31] = 0x77; id };
    let mut blocks: Vec<Vec<TxSpec>> = vec![];
    // block 1: script lengths on both sides of the CompactSize boundaries
    let mut txs = vec![];
    let mut lens = vec![0usize, 1, 0xfc, 0xfd, 0xfe, 0x100, 10_000, 10_001, 0xffff, 0x10000, 0x10001];
    if thorough { lens.extend([70_000, 100_000]); }
    for l in &lens { txs.push(TxSpec::new(vec![TxIn::new(idn(), 7, rng.bytes(*l))], vec![TxOut::new(*l as u64, rng.bytes(*l)), TxOut::new(u64::MAX, p2pkh_script(&[9; 20]))])); }
    blocks.push(txs);
    // block 2: counts on both sides of 0xfc/0xfd, non-canonical encodings, extreme field values
    let mut txs = vec![];
    for n in [0xfcusize, 0xfd, 0xfe] {
        txs.push(TxSpec::new((0..n).map(|i| TxIn::new(idn(), i as u32, vec![i as u8])).collect(), (0..n).map(|i| TxOut::new(i as u64, vec![0x51, i as u8])).collect()));
    }
    let mut t = TxSpec::new(vec![TxIn::new([0xff; 32], u32::MAX, vec![1, 2, 3])], vec![TxOut::new(0, vec![]), TxOut::new(1, p2pkh_script(&[1; 20]))]);
    t.version = u32::MAX; t.locktime = u32::MAX; t.inputs[0].seq = 0; t.in_count_width = 3; t.out_count_width = 9; t.inputs[0].len_width = 5; t.outputs[1].len_width = 3;
    txs.push(t);
    blocks.push(txs);
    // block 3: segwit transactions with assorted witness stacks (empty stack, empty item, big item, many items)
    let mut txs = vec![];
    let mut t = TxSpec::new(vec![TxIn::new(idn(), 0, vec![]), TxIn::new(idn(), 1, vec![0x16; 23]), TxIn::new(idn(), 2, vec![])], vec![TxOut::new(5, p2pkh_script(&[2; 20])), TxOut::new(6, vec![0x00, 0x14, 1, 2, 3, 4, 5, 6, 7, 8, 9, 10, 11, 12, 13, 14, 15, 16, 17, 18, 19, 20])]);
    t.witness = Some(vec![vec![], vec![vec![], rng.bytes(72), rng.bytes(33)], vec![rng.bytes(0x100), rng.bytes(1), vec![0x00]]]);
    txs.push(t);
    let mut t = TxSpec::new(vec![TxIn::new(idn(), 0, vec![])], vec![TxOut::new(7, vec![0x6a, 0x02, 0x68, 0x69])]);
    t.witness = Some(vec![(0..300).map(|i| vec![i as u8; (i % 5) as usize]).collect()]);
    txs.push(t);
    // witness items whose length needs the 3- and 5-byte CompactSize forms (65535, 65536, 70000 bytes), followed by a legacy tx
    let mut t = TxSpec::new(vec![TxIn::new(idn(), 0, vec![]), TxIn::new(idn(), 1, vec![])], vec![TxOut::new(11, p2pkh_script(&[3; 20]))]);
    t.witness = Some(vec![vec![vec![0x5a; 65_535], vec![0x5b; 65_536]], vec![vec![0x5c; 70_000]]]);
    t.locktime = 0x0bad_cafe;
    txs.push(t);
    txs.push(TxSpec::new(vec![TxIn::new(idn(), 0, vec![0x51])], vec![TxOut::new(8, vec![0x51])]));
    // the same payee paid several times by one transaction: adjacent and non-adjacent outputs (and inputs) with identical
    // scripts and different values -- every row keeps its own value, index and script
    txs.push(TxSpec::new(vec![TxIn::new(idn(), 0, vec![0x51, 0x52]), TxIn::new(idn(), 1, vec![0x51, 0x52]), TxIn::new(idn(), 1, vec![0x51, 0x52])],
        vec![TxOut::new(1000, p2pkh_script(&[0xa1; 20])), TxOut::new(2500, p2pkh_script(&[0xa1; 20])), TxOut::new(777, p2pkh_script(&[0xb2; 20])),
             TxOut::new(1, p2pkh_script(&[0xa1; 20])), TxOut::new(1, p2pkh_script(&[0xa1; 20])), TxOut::new(0, vec![]), TxOut::new(9, vec![]),
             TxOut::new(3, vec![0x6a, 0x01, 0x41]), TxOut::new(4, vec![0x6a, 0x01, 0x41])]));
    blocks.push(txs);
    // block 4: more than 252 transactions (tx count needs a 3-byte CompactSize)
    blocks.push((0..260).map(|i| TxSpec::new(vec![TxIn::new(idn(), i, vec![])], vec![TxOut::new(i as u64, vec![0x51])])).collect());
    // block 5: arbitrary u32 / u64 values in every numeric field (high bits set, zero, max)
    let mut txs = vec![];
    for i in 0..(if thorough { 120 } else { 24 }) {
        let pick32 = |r: &mut Rng| -> u32 { match r.below(5) { 0 => 0, 1 => u32::MAX, 2 => 0x8000_0000, 3 => 0x7fff_ffff, _ => r.next() as u32 } };
        let pick64 = |r: &mut Rng| -> u64 { match r.below(5) { 0 => 0, 1 => u64::MAX, 2 => 1 << 63, 3 => 21_000_000 * 100_000_000, _ => r.next() } };
        let nin = 1 + rng.below(3) as usize; let nout = 1 + rng.below(3) as usize;
        let mut t = TxSpec::new((0..nin).map(|j| { let mut x = TxIn::new(idn(), pick32(&mut rng), rng.bytes(j * 7)); x.seq = pick32(&mut rng); x }).collect(),
                                (0..nout).map(|j| TxOut::new(pick64(&mut rng), if j == 0 { p2pkh_script(&[i as u8; 20]) } else { rng.bytes(j * 3) })).collect());
        t.version = pick32(&mut rng); t.locktime = pick32(&mut rng);
        if i % 3 == 0 { t.witness = Some((0..nin).map(|j| (0..j).map(|q| rng.bytes(q * 40)).collect()).collect()); }
        txs.push(t);
    }
    // previous-output txids that agree in a prefix / suffix / all but one byte with their neighbour's (same tx, next tx, and
    // directly after the coinbase's all-zero txid); a non-coinbase input whose index is 0xffffffff
    let a = [0xaau8; 32]; let mut b = [0xbbu8; 32]; b[..8].copy_from_slice(&[0xaa; 8]); let mut c = [0xaau8; 32]; c[..24].copy_from_slice(&[0xcc; 24]);
    let mut z = [0x99u8; 32]; z[..8].copy_from_slice(&[0; 8]); let mut z2 = [0u8; 32]; z2[31] = 1; let mut a1 = a; a1[16] ^= 1;
    txs.insert(0, TxSpec::new(vec![TxIn::new(z, 0, vec![0x51]), TxIn::new(z2, u32::MAX, vec![]), TxIn::new([0xab; 32], u32::MAX, vec![0x52])], vec![TxOut::new(1, vec![0x51])]));
    txs.insert(1, TxSpec::new(vec![TxIn::new(a, 0, vec![]), TxIn::new(a, 1, vec![]), TxIn::new(b, 0, vec![]), TxIn::new(a, 2, vec![]), TxIn::new(c, 2, vec![]), TxIn::new(a1, 2, vec![])], vec![TxOut::new(2, vec![0x51])]));
    txs.insert(2, TxSpec::new(vec![TxIn::new(a, 3, vec![]), TxIn::new(b, 1, vec![])], vec![TxOut::new(3, vec![0x51])]));
    blocks.push(txs);
    let mut it = blocks.into_iter();
    let mut chain = make_chain(6, &mut |h| if h == 0 { vec![] } else { it.next().unwrap() });
    chain[5].version = 0x0001_0000;   // below every AuxPoW activation version: the chain is valid for all 8 coins
    chain[2].version = 2; chain[5].time = u32::MAX; chain[5].bits = 0x8000_0001; chain[5].nonce = 0x8000_0000;
    chain[2].tx_count_width = 5; chain[2].version = 0x0000_ffff; chain[2].bits = u32::MAX; chain[2].time = 0;
    // a byte-identical coinbase in two blocks (legal before BIP34, e.g. mainnet 91722 / 91880): still one row each
    chain[4].txs[0] = chain[1].txs[0].clone();
    relink(&mut chain);
    chain
}
/// C01 (bounded: the 5-block boundary chain above, bitcoin and litecoin, --verify on/off): one row per block / tx / input /
/// output in chain order, every field equal to the value on disk, totals equal the rows written
#[test]
fn c01_csvdump_rows_match_disk() {
    let suite = "c01_csvdump_rows_match_disk";
    let chain = boundary_chain();
    let d = simple_dir(&chain); d.write();
    let mut cases = 0;
    let mut runs = vec![("bitcoin", false), ("litecoin", false), ("bitcoin", true), ("namecoin", false), ("myriadcoin", false)];
    if thorough() { runs.extend([("testnet3", false), ("dogecoin", true), ("unobtanium", false), ("noteblockchain", false)]); }
    for (coin, verify) in runs {
        let s = if verify { 1 } else { 0 };
        let blocks = match fetch_blocks(d.path(), coin, s, 5, verify) { Ok(b) => b, Err(m) => { fail(suite, "C01:well_formed_chain_parses", &format!("{} verify={}", coin, verify), &m, "Ok"); continue; } };
        let out = tempfile::tempdir().unwrap();
        // leftovers of an earlier, aborted dump into the same folder (longer than anything this run writes for the small
        // files): the new dump holds exactly the rows of this run
        for f in ["blocks", "transactions", "tx_in", "tx_out"] { std::fs::write(out.path().join(format!("{}.csv.tmp", f)), "stale;row;of;an;aborted;run\n".repeat(if f == "blocks" { 400 } else { 3 })).unwrap(); }
        let m = CsvDump::build_subcommand().get_matches_from(vec!["csvdump", out.path().to_str().unwrap()]);
        let mut cb = CsvDump::new(&m).unwrap();
        log_begin();
        cb.on_start(s).unwrap();
        for (i, b) in blocks.iter().enumerate() { cb.on_block(b, s + i as u64).unwrap(); }
        cb.on_complete(5).unwrap();
        drop(cb);
        // totals printed on completion: "-> transactions: N", "-> inputs: N", "-> outputs: N"
        let lg = log_text();
        let num = |key: &str| -> i64 { lg.lines().find_map(|l| l.trim().strip_prefix(key).map(|r| r.trim().parse::<i64>().unwrap_or(-1))).unwrap_or(-2) };
        let (tc, ic, oc) = (num("-> transactions:"), num("-> inputs:"), num("-> outputs:"));
        let rd = |n: &str| csv_lines(&out.path().join(format!("{}-{}-5.csv", n, s)));
        let (gb, gt, gi, go) = (rd("blocks"), rd("transactions"), rd("tx_in"), rd("tx_out"));
        let (mut wb, mut wt, mut wi, mut wo) = (vec![], vec![], vec![], vec![]);
        for h in s..=5 { let b = &chain[h as usize];
            let raw_len = b.ser().len();
            wb.push(format!("{};{};{};{};{};{};{};{};{}", hex_rev(&b.hash()), h, b.version, raw_len, hex_rev(&b.prev), hex_rev(&b.merkle_root()), b.time, b.bits, b.nonce));
            for t in &b.txs { let id = hex_rev(&t.txid());
                wt.push(format!("{};{};{};{}", id, hex_rev(&b.hash()), t.version, t.locktime));
                for i in &t.inputs { wi.push(format!("{};{};{};{};{}", id, hex_rev(&i.prev_txid), i.prev_index, hex(&i.script_sig), i.seq)); }
                for (n, o) in t.outputs.iter().enumerate() {
                    let addr = match coin { "bitcoin" => addr_of(&o.script).or_else(|| wit_addr(&o.script)).unwrap_or_default(), "testnet3" => tn_addr(&o.script),
                        _ => fork_addr(&o.script, coin.parse::<crate::blockchain::parser::types::CoinType>().unwrap().version_id) };
                    wo.push(format!("{};{};{};{};{}", id, n, o.value, hex(&o.script), addr)); }
            } }
        let inp = format!("{} verify={}", coin, verify);
        for (name, g, w) in [("blocks", &gb, &wb), ("transactions", &gt, &wt), ("tx_in", &gi, &wi), ("tx_out", &go, &wo)] {
            cases += 1;
            if g.len() != w.len() { fail(suite, "C01:one_row_per_item_in_chain_order", &format!("{} {}.csv", inp, name), &format!("{} rows", g.len()), &format!("{} rows", w.len())); continue; }
            if let Some(i) = (0..g.len()).find(|i| g[*i] != w[*i]) {
                let cut = |s: &String| if s.len() > 260 { format!("{}..", &s[..260]) } else { s.clone() };
                fail(suite, "C01:every_field_equals_the_value_on_disk", &format!("{} {}.csv row {}", inp, name, i), &cut(&g[i]), &cut(&w[i])); }
        }
        cases += 1;
        check((tc, ic, oc) == (wt.len() as i64, wi.len() as i64, wo.len() as i64), suite, "C01:totals_equal_rows_written", &inp, &format!("{:?}", (tc, ic, oc)), &format!("{:?}", (wt.len(), wi.len(), wo.len())));
    }
    finish(suite, cases);
}
fn wit_addr(s: &[u8]) -> Option<String> {
    if s.len() == 22 && s[0] == 0 && s[1] == 0x14 {
        let p = bitcoin::WitnessProgram::new(bitcoin::WitnessVersion::V0, &s[2..]).ok()?;
        return Some(bitcoin::Address::from_witness_program(p, bitcoin::Network::Bitcoin).to_string());
    }
    None
}
fn tn_addr(s: &[u8]) -> String {
    let n = s.len();
    if n == 25 && s[0] == 0x76 && s[1] == 0xa9 && s[2] == 0x14 && s[23] == 0x88 && s[24] == 0xac { return b58check(0x6f, &s[3..23]); }
    if n == 22 && s[0] == 0 && s[1] == 0x14 { if let Ok(p) = bitcoin::WitnessProgram::new(bitcoin::WitnessVersion::V0, &s[2..]) { return bitcoin::Address::from_witness_program(p, bitcoin::Network::Testnet).to_string(); } }
    String::new()
}
/// fork coins (custom evaluator): P2PKH / P2PK / P2SH templates of the shapes used here
fn fork_addr(s: &[u8], ver: u8) -> String {
    let n = s.len();
    if n == 25 && s[0] == 0x76 && s[1] == 0xa9 && s[2] == 0x14 && s[23] == 0x88 && s[24] == 0xac { return b58check(ver, &s[3..23]); }
    String::new()
}
