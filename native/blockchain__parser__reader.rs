// lane N suites appended to src/blockchain/parser/reader.rs   (C11 reader-level, C01/C12/C14 parsing)
use std::io::{Read as _, Seek as _, SeekFrom as SF};

/// a virtual, arbitrarily large obfuscated "file": byte i of the plaintext is f(i); reads and seeks behave like std::fs::File
struct Virt { pos: u64, len: u64, key: Vec<u8>, chunk: usize }
fn plain_at(i: u64) -> u8 { (i.wrapping_mul(2654435761) >> 7) as u8 ^ (i >> 29) as u8 }
impl std::io::Read for Virt {
    fn read(&mut self, buf: &mut [u8]) -> std::io::Result<usize> {
        let n = (buf.len().min(self.chunk) as u64).min(self.len.saturating_sub(self.pos)) as usize;
        for j in 0..n { let i = self.pos + j as u64; buf[j] = plain_at(i) ^ self.key[(i % self.key.len() as u64) as usize]; }
        self.pos += n as u64;
        Ok(n)
    }
}
impl std::io::Seek for Virt {
    fn seek(&mut self, p: SF) -> std::io::Result<u64> {
        self.pos = match p { SF::Start(x) => x, SF::Current(d) => (self.pos as i64 + d) as u64, SF::End(d) => (self.len as i64 + d) as u64 };
        Ok(self.pos)
    }
}
/// C11 (bounded: key lengths 1..=64 x the offsets below x short/long reads): XorReader over an obfuscated stream
/// yields the plaintext for every interleaving of seeks and reads, including multi-GiB offsets
#[test]
fn c11_xor_reader_any_offset() {
    let suite = "c11_xor_reader_any_offset";
    let mut rng = Rng::new(111);
    let mut cases = 0;
    let offsets: Vec<u64> = vec![0, 1, 7, 8, 9, 32767, 32768, 32769, 65_535, (1 << 31) - 3, (1u64 << 32) - 5, 1u64 << 32, (1u64 << 32) + 1, (1u64 << 32) + 12345, (1u64 << 33) + 7, 5_000_000_017];
    for klen in 1..=64usize {
        let key = if klen == 8 { vec![0u8; 8] } else { rng.bytes(klen) };
        let mut r = XorReader::new(Virt { pos: 0, len: 1 << 34, key: key.clone(), chunk: 1 + (klen * 7) % 50 }, Some(key.clone()));
        // visit the offsets in a scrambled order: backward and forward seeks
        let mut order = offsets.clone();
        for i in 0..order.len() { let j = rng.below(order.len() as u64) as usize; order.swap(i, j); }
        for off in order {
            cases += 1;
            let got_pos = r.seek(SF::Start(off)).unwrap();
            let mut buf = vec![0u8; 1 + (off % 97) as usize + klen];
            r.read_exact(&mut buf).unwrap();
            let want: Vec<u8> = (0..buf.len() as u64).map(|j| plain_at(off + j)).collect();
            check(got_pos == off && buf == want, suite, "C11:delivered_bytes_are_the_stream_bytes_at_pos", &format!("key length {} offset {} read {}", klen, off, buf.len()), &hex(&buf[..buf.len().min(12)]), &hex(&want[..want.len().min(12)]));
            // a second read continues where the first ended
            let mut b2 = vec![0u8; 5];
            r.read_exact(&mut b2).unwrap();
            let w2: Vec<u8> = (0..5u64).map(|j| plain_at(off + buf.len() as u64 + j)).collect();
            check(b2 == w2, suite, "C11:position_tracks_consecutive_reads", &format!("key length {} offset {}", klen, off + buf.len() as u64), &hex(&b2), &hex(&w2));
        }
    }
    // one read call that fills a buffer far larger than any internal buffer (the underlying reader hands over as much as asked
    // for: scripts and witness items are read with a single read_exact of their whole length)
    for (klen, off, n) in [(8usize, 0u64, 32_768usize), (8, 5, 32_769), (8, 3, 40_000), (3, 1, 100_000), (64, 7, 1 << 20), (8, (1u64 << 32) - 9, 70_000), (5, 32_760, 65_537)] {
        cases += 1;
        let key = rng.bytes(klen);
        let mut r = XorReader::new(Virt { pos: 0, len: 1 << 34, key: key.clone(), chunk: usize::MAX }, Some(key.clone()));
        r.seek(SF::Start(off)).unwrap();
        let mut buf = vec![0u8; n];
        r.read_exact(&mut buf).unwrap();
        let bad = (0..n).find(|j| buf[*j] != plain_at(off + *j as u64));
        check(bad.is_none(), suite, "C11:delivered_bytes_are_the_stream_bytes_at_pos", &format!("key length {} offset {} one read of {} bytes", klen, off, n), &format!("first wrong byte at +{:?}", bad), "plaintext");
        let mut b2 = vec![0u8; 9]; r.read_exact(&mut b2).unwrap();
        check(b2 == (0..9u64).map(|j| plain_at(off + n as u64 + j)).collect::<Vec<u8>>(), suite, "C11:position_tracks_consecutive_reads", &format!("key length {} after one read of {} bytes at {}", klen, n, off), &hex(&b2), "plaintext");
    }
    // no key: identity
    let mut r = XorReader::new(Virt { pos: 0, len: 1 << 20, key: vec![0], chunk: 13 }, None);
    r.seek(SF::Start(1000)).unwrap(); let mut b = vec![0u8; 40]; r.read_exact(&mut b).unwrap();
    cases += 1;
    check(b == (0..40u64).map(|j| plain_at(1000 + j)).collect::<Vec<u8>>(), suite, "C11:no_key_is_identity", "offset 1000", &hex(&b[..8]), "plaintext");
    finish(suite, cases);
}

// ---- C12: AuxPoW sections ---------------------------------------------------------------------------
/// C12 (bounded: versions below / at / above the thresholds incl. versions with bit 8 clear; branch lengths 0..=33, 252, 253,
/// 300 and length prefixes in the 3- / 5- / 9-byte form;
/// legacy and segwit parent coinbase; all 8 coins): the AuxPoW section is consumed exactly iff required
#[test]
fn c12_auxpow_sections() {
    use crate::blockchain::parser::types::CoinType;
    let suite = "c12_auxpow_sections";
    let mut rng = Rng::new(12);
    let mut cases = 0;
    let body = vec![
        TxSpec::new(vec![TxIn::coinbase(1)], vec![TxOut::new(50, p2pkh_script(&[1; 20]))]),
        TxSpec::new(vec![TxIn::new([5; 32], 1, vec![0x51])], vec![TxOut::new(7, vec![0x51]), TxOut::new(8, p2pkh_script(&[2; 20]))]),
    ];
    let coins: Vec<(&str, Option<u32>)> = vec![("namecoin", Some(0x10101)), ("dogecoin", Some(0x620102)), ("bitcoin", None), ("testnet3", None),
        ("litecoin", None), ("myriadcoin", None), ("unobtanium", None), ("noteblockchain", None)];
    for (coin, thr) in coins {
        let ct: CoinType = coin.parse().unwrap();
        let mut versions: Vec<u32> = vec![1, 2, 0x10100, 0x10101, 0x10102, 0x10201, 0x620101, 0x620102, 0x620103, 0x620202, 0x20000000, 0x7fffffff, 0xffffffff];
        if let Some(t) = thr { versions.extend([t - 1, t, t + 1]); }
        for v in versions {
            let needs = matches!(thr, Some(t) if v >= t);
            // (branch lengths up to 300 links: the length is a CompactSize like any other -- 252/253 boundary -- and may be written
            // in a wider form than needed)
            for (sw, n1, w1, n2, w2) in [(false, 0usize, 0usize, 0usize, 0usize), (false, 1, 0, 3, 0), (true, 2, 0, 0, 0), (true, 12, 0, 33, 0),
                                         (false, 252, 0, 253, 0), (true, 300, 0, 1, 0), (false, 2, 3, 1, 5), (true, 0, 9, 7, 3), (false, 253, 5, 0, 3)] {
                if !needs && (n1 > 33 || w1 + w2 > 0) { continue; }
                cases += 1;
                let mut b = BlockSpec::new([4; 32], 99, body.clone());
                b.version = v;
                if needs { b.aux = Some(aux_section_w(&mut rng, sw, n1, w1, n2, w2)); }
                let raw = b.ser();
                let mut padded = raw.clone(); padded.extend_from_slice(&[0xEE; 7]);      // bytes of the next record must stay unread
                let mut cur = std::io::Cursor::new(&padded[..]);
                let inp = format!("{} version={:#x} aux={} segwit_cb={} branches=({}, {}) length-prefix widths=({}, {})", coin, v, needs, sw, n1, n2, w1, w2);
                let blk = match std::panic::catch_unwind(std::panic::AssertUnwindSafe(|| cur.read_block(raw.len() as u32, &ct))) {
                    Ok(Ok(x)) => x, Ok(Err(e)) => { fail(suite, "C12:auxpow_section_consumed_exactly", &inp, &format!("Err {}", e), "Ok"); continue; }
                    Err(_) => { fail(suite, "C12:auxpow_section_consumed_exactly", &inp, "panic", "Ok"); continue; } };
                check(blk.aux_pow_extension.is_some() == needs, suite, "C12:auxpow_parsed_iff_version_at_or_above_threshold", &inp, &format!("{}", blk.aux_pow_extension.is_some()), &format!("{}", needs));
                check(cur.position() == raw.len() as u64, suite, "C12:auxpow_section_consumed_exactly", &inp, &format!("consumed {}", cur.position()), &format!("{}", raw.len()));
                check(blk.header.hash.to_byte_array() == b.hash(), suite, "C01,C12:block_hash_is_sha256d_of_the_80_header_bytes", &inp, &hex(&blk.header.hash.to_byte_array()[..4]), &hex(&b.hash()[..4]));
                // (merkle root over the delivered txids, computed by the kit: the header's root must still be the tree of the block's own txs)
                { let leaves: Vec<[u8; 32]> = blk.txs.iter().map(|t| t.hash.to_byte_array()).collect();
                  check(!leaves.is_empty() && ref_merkle(&leaves) == blk.header.value.merkle_root.to_byte_array(), suite, "C12:derived_outputs_unaffected_by_the_section", &format!("{} merkle root of the delivered txids", inp), "differs from the header field", "equal"); }
                let got: Vec<[u8; 32]> = blk.txs.iter().map(|t| t.hash.to_byte_array()).collect();
                let want: Vec<[u8; 32]> = body.iter().map(|t| t.txid()).collect();
                check(got == want, suite, "C12:transaction_list_unaffected_by_the_section", &inp, &format!("{} txs {:?}", got.len(), got.iter().map(|x| hex(&x[..3])).collect::<Vec<_>>()), &format!("{} txs", want.len()));
            }
        }
    }
    finish(suite, cases);
}
