// lane N suites appended to src/blockchain/parser/reader.rs   (C11 reader-level, C01/C12/C14 parsing)
use std::io::{Read as _, Seek as _, SeekFrom as SF};

/// a virtual, arbitrarily large obfuscated "file": byte i of the plaintext is f(i); reads and seeks behave like std::fs::File
struct Virt { pos: u64, len: u64, key: Vec<u8>, chunk: usize }
fn plain_at(i: u64) -> u8 { (i.wrapping_mul(2654435761) >> 7) as u8 ^ (i >> 29) as u8 }
impl std::io::Read for Virt {
    fn read(&mut self, buf: &mut [u8]) -> std::io::Result<usize> {
        let n = (buf.len().min(self.chunk) as u64).min(self.len.saturating_sub(self.pos)) as usize;
        for j in 0..n { let i = self.pos + j as u64; buf[j] = plain_at(i) ^ self.key[(i % self.key.len() as u64) as usize]; }
        self.pos += n as u64;
        Ok(n)
    }
}
impl std::io::Seek for Virt {
    fn seek(&mut self, p: SF) -> std::io::Result<u64> {
        self.pos = match p { SF::Start(x) => x, SF::Current(d) => (self.pos as i64 + d) as u64, SF::End(d) => (self.len as i64 + d) as u64 };
        Ok(self.pos)
    }
}
/// C11 (bounded: key lengths 1..=64 x the offsets below x short/long reads): XorReader over an obfuscated stream
/// yields the plaintext for every interleaving of seeks and reads, including multi-GiB offsets
#[test]
fn c11_xor_reader_any_offset() {
    let suite = "c11_xor_reader_any_offset";
    let mut rng = Rng::new(111);
    let mut cases = 0;
    let offsets: Vec<u64> = vec![0, 1, 7, 8, 9, 32767, 32768, 32769, 65_535, (1 << 31) - 3, (1u64 << 32) - 5, 1u64 << 32, (1u64 << 32) + 1, (1u64 << 32) + 12345, (1u64 << 33) + 7, 5_000_000_017];
    for klen in 1..=64usize {
        let key = if klen == 8 { vec![0u8; 8] } else { rng.bytes(klen) };
        let mut r = XorReader::new(Virt { pos: 0, len: 1 << 34, key: key.clone(), chunk: 1 + (klen * 7) % 50 }, Some(key.clone()));
        // visit the offsets in a scrambled order: backward and forward seeks
        let mut order = offsets.clone();
        for i in 0..order.len() { let j = rng.below(order.len() as u64) as usize; order.swap(i, j); }
        for off in order {
            cases += 1;
            let got_pos = r.seek(SF::Start(off)).unwrap();
            let mut buf = vec![0u8; 1 + (off % 97) as usize + klen];
            r.read_exact(&mut buf).unwrap();
            let want: Vec<u8> = (0..buf.len() as u64).map(|j| plain_at(off + j)).collect();
            check(got_pos == off && buf == want, suite, "C11:delivered_bytes_are_the_stream_bytes_at_pos", &format!("key length {} offset {} read {}", klen, off, buf.len()), &hex(&buf[..buf.len().min(12)]), &hex(&want[..want.len().min(12)]));
            // a second read continues where the first ended
            let mut b2 = vec![0u8; 5];
            r.read_exact(&mut b2).unwrap();
            let w2: Vec<u8> = (0..5u64).map(|j| plain_at(off + buf.len() as u64 + j)).collect();
            check(b2 == w2, suite, "C11:position_tracks_consecutive_reads", &format!("key length {} offset {}", klen, off + buf.len() as u64), &hex(&b2), &hex(&w2));
        }
    }
    // no key: identity
    let mut r = XorReader::new(Virt { pos: 0, len: 1 << 20, key: vec![0], chunk: 13 }, None);
    r.seek(SF::Start(1000)).unwrap(); let mut b = vec![0u8; 40]; r.read_exact(&mut b).unwrap();
    cases += 1;
    check(b == (0..40u64).map(|j| plain_at(1000 + j)).collect::<Vec<u8>>(), suite, "C11:no_key_is_identity", "offset 1000", &hex(&b[..8]), "plaintext");
    finish(suite, cases);
}
