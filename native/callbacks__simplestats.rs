// lane N suite appended to src/callbacks/simplestats.rs   (C15)
use bitcoin::hashes::Hash as _;

struct RefStats { blocks: u64, txs: u64, ins: u64, outs: u64, fee: u64, vol: u64, big_val: (u64, u64, [u8; 32]), big_size: (usize, u64, [u8; 32]),
    sizes: Vec<u32>, gaps: Vec<u32>, types: std::collections::BTreeMap<String, u64>, first: std::collections::BTreeMap<String, (u64, [u8; 32], u32)> }
fn reward(h: u64) -> u64 { let k = h / 210000; if k >= 64 { 0 } else { 5_000_000_000u64 >> k } }
fn recompute(chain: &[BlockSpec], heights: &[u64]) -> RefStats {
    let mut r = RefStats { blocks: 0, txs: 0, ins: 0, outs: 0, fee: 0, vol: 0, big_val: (0, 0, [0; 32]), big_size: (0, 0, [0; 32]), sizes: vec![], gaps: vec![],
        types: Default::default(), first: Default::default() };
    let mut last_ts = 0u32;
    for (b, h) in chain.iter().zip(heights) {
        r.blocks += 1; r.txs += b.txs.len() as u64; r.sizes.push(b.ser().len() as u32);
        for t in &b.txs {
            let cb = t.inputs.len() == 1 && t.inputs[0].prev_txid == [0; 32] && t.inputs[0].prev_index == 0xffff_ffff;
            if cb { r.fee += t.outputs[0].value.saturating_sub(reward(*h)); }
            r.ins += t.inputs.len() as u64; r.outs += t.outputs.len() as u64;
            let v: u64 = t.outputs.iter().map(|o| o.value).sum();
            for (i, o) in t.outputs.iter().enumerate() { let ty = type_of(&o.script).to_string();
                *r.types.entry(ty.clone()).or_insert(0) += 1; r.first.entry(ty).or_insert((*h, t.txid(), i as u32)); }
            if v > r.big_val.0 { r.big_val = (v, *h, t.txid()); }
            r.vol += v;
            let sz = t.ser_nowit().len();
            if sz > r.big_size.0 { r.big_size = (sz, *h, t.txid()); }
        }
        if last_ts > 0 { r.gaps.push(b.time.saturating_sub(last_ts)); }
        last_ts = b.time;
    }
    r
}
/// the report the property speaks about, rendered from the independent recomputation (same layout as print_*)
fn expected_report(r: &RefStats) -> Vec<String> {
    let mean = |v: &Vec<u32>| if v.is_empty() { 0.0 } else { v.iter().map(|x| *x as u64).sum::<u64>() as f64 / v.len() as f64 };
    let mut v = vec![
        format!("-> valid blocks: {}", r.blocks), format!("-> total transactions: {}", r.txs),
        format!("-> total tx inputs: {}", r.ins), format!("-> total tx outputs: {}", r.outs),
        format!("-> total tx fees: {:.8} ({} units)", r.fee as f64 * 1E-8, r.fee), format!("-> total volume: {:.8} ({} units)", r.vol as f64 * 1E-8, r.vol),
        format!("-> biggest value tx: {:.8} ({} units) | seen in block #{}, txid: {}", r.big_val.0 as f64 * 1E-8, r.big_val.0, r.big_val.1, hex_rev(&r.big_val.2)),
        format!("-> biggest size tx: {} bytes | seen in block #{}, txid: {}", r.big_size.0, r.big_size.1, hex_rev(&r.big_size.2)),
        format!("-> avg block size: {:.2} KiB", mean(&r.sizes) / 1024.00), format!("-> avg time between blocks: {:.2} (minutes)", mean(&r.gaps) / 60.00),
        format!("-> avg txs per block: {:.2}", r.txs as f64 / r.blocks as f64), format!("-> avg inputs per tx: {:.2}", r.ins as f64 / r.txs as f64),
        format!("-> avg outputs per tx: {:.2}", r.outs as f64 / r.txs as f64), format!("-> avg value per output: {:.2}", r.vol as f64 / r.outs as f64 * 1E-8),
    ];
    for (ty, n) in &r.types {
        let name = if ty == "OpReturn" { "OpReturn(\"\")".to_string() } else { ty.clone() };
        let f = r.first[ty];
        v.push(format!("-> {}: {} ({:.2}%) | first seen in block #{}, txid: {}", name, n, (*n as f64 / r.outs as f64) * 100.00, f.0, hex_rev(&f.1)));
    }
    v.sort();
    v
}
/// the report actually logged by on_complete, normalised: tabs collapsed, the "seen in block" lines joined to their figure
fn logged_report(text: &str) -> Vec<String> {
    let mut v: Vec<String> = Vec::new();
    for l in text.lines() {
        let t = l.split_whitespace().collect::<Vec<_>>().join(" ");
        if t.starts_with("->") { v.push(t); }
        else if t.starts_with("seen in block") || t.starts_with("first seen in block") { if let Some(last) = v.last_mut() { last.push_str(" | "); last.push_str(&t); } }
    }
    v.sort();
    v
}
fn compare(suite: &str, inp: &str, text: &str, r: &RefStats) {
    let got = logged_report(text);
    let want = expected_report(r);
    for w in &want {
        if !got.contains(w) {
            let key: String = w.split(':').next().unwrap_or("").to_string();
            let g = got.iter().find(|g| g.starts_with(&key)).cloned().unwrap_or_else(|| "<line missing>".into());
            let c = if key.contains("biggest") { "C15:biggest_tx_first_on_ties" } else if key.contains("avg") { "C15:exact_arithmetic_mean" }
                    else if key.contains("fees") { "C15:total_fees" } else if w.contains("first seen") { "C15:per_script_type_count_share_first_occurrence" } else { "C15:figure_equals_independent_recomputation" };
            fail(suite, c, inp, &g, w);
        }
    }
    check(got.len() == want.len(), suite, "C15:report_has_exactly_the_expected_figures", inp, &format!("{} figures", got.len()), &format!("{} figures", want.len()));
}
/// C15 (bounded: 2 random histories of 12 blocks with ties and non-monotonic timestamps; one history placed at the
/// 33rd subsidy era; a hand-made history with a 9-byte-CompactSize transaction as size record and coinbase outputs of 2^63 and
/// more units; a mean over values summing beyond 2^32)
#[test]
fn c15_figures_match_recomputation() {
    let suite = "c15_figures_match_recomputation";
    let mut cases = 0;
    for salt in 0..(if thorough() { 10u64 } else { 2 }) {
        let mut rng = Rng::new(150 + salt);
        let mut chain = gen_history(&mut rng, 12);
        // ties: two transactions of identical size and value that both beat every earlier one, in one block and across blocks
        let fat = |tag: u8| TxSpec::new(vec![TxIn::new([tag; 32], 0, vec![0x51; 20_000])], vec![TxOut::new(5_000_000_000_000, p2pkh_script(&[tag; 20]))]);
        if salt % 2 == 0 { chain[7].txs.push(fat(1)); chain[7].txs.push(fat(2)); chain[9].txs.push(fat(3)); }
        else {
            // sizes on both sides of the CompactSize boundary decide the size record: script lengths 252 / 253 / 254, 253 outputs
            for b in chain.iter_mut() { b.txs.retain(|t| t.outputs.len() < 100); }
            let sized = |tag: u8, n: usize| TxSpec::new(vec![TxIn::new([tag; 32], 0, vec![0x51; n])], vec![TxOut::new(1, vec![0x51; 700 - n])]);
            chain[6].txs.push(sized(4, 252)); chain[7].txs.push(sized(5, 253)); chain[8].txs.push(sized(6, 252)); chain[10].txs.push(sized(7, 254));
            chain[11].txs.push(TxSpec::new(vec![TxIn::new([8; 32], 0, vec![])], (0..253).map(|i| TxOut::new(i, vec![])).collect()));
        }
        // coinbases claiming less and more than the subsidy: fees are floored at zero PER coinbase, then summed
        chain[3].txs[0].outputs[0].value = 49_0000_0000; chain[5].txs[0].outputs[0].value = 51_5000_0000; chain[6].txs[0].outputs[0].value = 50_0000_0001;
        chain[9].txs[0].outputs[0].value = 0;
        // split rewards: only the FIRST coinbase output counts for the fee figure
        chain[2].txs[0].outputs.push(TxOut::new(25_3000_0000, p2pkh_script(&[0x77; 20]))); chain[5].txs[0].outputs.push(TxOut::new(1_0000_0000, vec![0x51])); chain[6].txs[0].outputs.push(TxOut::new(0, vec![0x6a, 0x01, 0x41]));
        // non-monotonic timestamps
        chain[4].time = chain[3].time - 500; chain[5].time = chain[3].time + 7; chain[8].time = 1;
        relink(&mut chain);
        for base in [0u64, 6_719_995] {
            cases += 1;
            let heights: Vec<u64> = (0..12).map(|i| base + i).collect();
            let mut d = DataDir::new();
            for (i, b) in chain.iter().enumerate() { d.add(0, heights[i], b, ST_ACTIVE); }
            d.write();
            let blocks = match fetch_blocks(d.path(), "bitcoin", base, base + 11, false) { Ok(b) => b, Err(m) => { fail(suite, "C15:chain_parses", &format!("history {} base {}", salt, base), &m, "Ok"); continue; } };
            let mut st = SimpleStats::default();
            log_begin();
            st.on_start(base).unwrap();
            for (i, b) in blocks.iter().enumerate() { st.on_block(b, heights[i]).unwrap(); }
            let r = std::panic::catch_unwind(std::panic::AssertUnwindSafe(|| st.on_complete(base + 11)));
            if !check(matches!(r, Ok(Ok(()))), suite, "C15:report_renders", &format!("history {}", salt), "panic/err", "Ok") { continue; }
            compare(suite, &format!("history {} heights {}..", salt, base), &log_text(), &recompute(&chain, &heights));
        }
    }
    // a hand-made history: (1) the size record goes to a transaction whose CompactSize fields are all written in the 9-byte
    // form (its serialized size is what counts, 32 bytes more than its minimal encoding) right after a canonical transaction
    // that is bigger than the wide one's minimal encoding; (2) coinbases whose first output needs the top bit of a u64
    {
        cases += 1;
        let a = TxSpec::new(vec![TxIn::new([0xA1; 32], 0, vec![0x51; 24])], vec![TxOut::new(10, vec![0x51; 4])]);
        let mut b = TxSpec::new(vec![TxIn::new([0xB1; 32], 0, vec![0x51; 4])], vec![TxOut::new(11, vec![0x51; 4])]);
        b.in_count_width = 9; b.out_count_width = 9; b.inputs[0].len_width = 9; b.outputs[0].len_width = 9;
        let mut c = TxSpec::new(vec![TxIn::new([0xC1; 32], 0, vec![0x51; 4])], vec![TxOut::new(12, vec![0x51; 4])]);
        c.in_count_width = 5; c.out_count_width = 3; c.inputs[0].len_width = 5; c.outputs[0].len_width = 9;
        let mut chain = make_chain(5, &mut |h| match h { 1 => vec![a.clone(), b.clone()], 3 => vec![c.clone()], _ => vec![] });
        for b in chain.iter_mut() { b.txs[0].inputs[0].script_sig = vec![0x01]; }     // small coinbases: a, b, c decide the size record
        chain[2].txs[0].outputs[0].value = (1u64 << 63) + 5_000_000_007;
        chain[3].txs[0].outputs[0].value = 5_000_001_234;
        chain[4].txs[0].outputs[0].value = 4_999_999_999;
        relink(&mut chain);
        let heights: Vec<u64> = (0..5).collect();
        let d = simple_dir(&chain); d.write();
        for coin in ["bitcoin", "dogecoin"] {
            let inp = format!("{}: canonical 114-byte tx, then a tx with four 9-byte CompactSize fields; coinbase first outputs of 2^63+5000000007, 5000001234, 4999999999 units", coin);
            match fetch_blocks(d.path(), coin, 0, 4, false) { Err(m) => fail(suite, "C15:chain_parses", &inp, &m, "Ok"), Ok(blocks) => {
                let mut st = SimpleStats::default();
                log_begin();
                st.on_start(0).unwrap();
                let r = std::panic::catch_unwind(std::panic::AssertUnwindSafe(|| { for (i, b) in blocks.iter().enumerate() { st.on_block(b, heights[i]).unwrap(); } st.on_complete(4) }));
                if check(matches!(r, Ok(Ok(()))), suite, "C15:report_renders", &inp, "panic/err", "Ok") { compare(suite, &inp, &log_text(), &recompute(&chain, &heights)); }
            } }
        }
    }
    cases += 1;
    let big = vec![u32::MAX, u32::MAX, 7, 0, u32::MAX];
    let want = (3.0 * u32::MAX as f64 + 7.0) / 5.0;
    check(utils::get_mean(&big) == want, suite, "C15:exact_arithmetic_mean", "[u32::MAX, u32::MAX, 7, 0, u32::MAX]", &utils::get_mean(&big).to_string(), &want.to_string());
    finish(suite, cases);
}

/// C15 (one chain with eleven script types, run as a child process through the program's own logger): every figure of the
/// report -- one entry per script type included -- reaches stdout, whatever the length of the report
#[test]
fn c15_report_through_the_program_logger() {
    let suite = "c15_report_through_the_program_logger";
    let key = { let mut k = vec![0x02]; k.extend(vec![9u8; 32]); k };
    let scripts: Vec<Vec<u8>> = vec![
        p2pkh_script(&[1; 20]), { let mut s = vec![33]; s.extend_from_slice(&key); s.push(0xac); s }, { let mut s = vec![0xa9, 0x14]; s.extend(vec![3u8; 20]); s.push(0x87); s },
        { let mut s = vec![0x51, 33]; s.extend_from_slice(&key); s.extend([0x51, 0xae]); s }, vec![0x6a, 0x02, 0x68, 0x69], vec![0x51],
        { let mut s = vec![0x00, 0x14]; s.extend(vec![4u8; 20]); s }, { let mut s = vec![0x00, 0x20]; s.extend(vec![5u8; 32]); s }, { let mut s = vec![0x51, 0x20]; s.extend(vec![6u8; 32]); s },
        { let mut s = vec![0x52, 0x0a]; s.extend(vec![7u8; 10]); s }, vec![0x50, 0x01, 0x02]];
    let mut chain = make_chain(4, &mut |h| if h == 0 { vec![] } else {
        vec![TxSpec::new(vec![TxIn::new([h as u8; 32], 0, vec![0x51])], scripts.iter().enumerate().map(|(i, sc)| TxOut::new(1000 * h + i as u64, sc.clone())).collect())] });
    relink(&mut chain);
    let d = simple_dir(&chain); d.write();
    let out = tempfile::tempdir().unwrap();
    let (code, _names, stdout) = crate::blockchain::parser::verif_native::whole_run_in_child_ex(d.path(), out.path(), 0, false, "simplestats");
    let inp = "4 blocks, 11 script types (P2PKH, P2PK, P2SH, multisig, OP_RETURN, non-standard, P2WPKH, P2WSH, P2TR, witness v2, unspendable), simplestats through SimpleLogger";
    if check(code == Some(0), suite, "C15:report_renders", inp, &format!("exit {:?}", code), "exit 0") {
        compare(suite, inp, &stdout, &recompute(&chain, &[0, 1, 2, 3]));
    }
    finish(suite, 1);
}
