// lane N suite appended to src/callbacks/simplestats.rs   (C15)
use bitcoin::hashes::Hash as _;

struct RefStats { blocks: u64, txs: u64, ins: u64, outs: u64, fee: u64, vol: u64, big_val: (u64, u64, [u8; 32]), big_size: (usize, u64, [u8; 32]),
    sizes: Vec<u32>, gaps: Vec<u32>, types: std::collections::BTreeMap<String, u64>, first: std::collections::BTreeMap<String, (u64, [u8; 32], u32)> }
fn reward(h: u64) -> u64 { let k = h / 210000; if k >= 64 { 0 } else { 5_000_000_000u64 >> k } }
fn recompute(chain: &[BlockSpec], heights: &[u64]) -> RefStats {
    let mut r = RefStats { blocks: 0, txs: 0, ins: 0, outs: 0, fee: 0, vol: 0, big_val: (0, 0, [0; 32]), big_size: (0, 0, [0; 32]), sizes: vec![], gaps: vec![],
        types: Default::default(), first: Default::default() };
    let mut last_ts = 0u32;
    for (b, h) in chain.iter().zip(heights) {
        r.blocks += 1; r.txs += b.txs.len() as u64; r.sizes.push(b.ser().len() as u32);
        for t in &b.txs {
            let cb = t.inputs.len() == 1 && t.inputs[0].prev_txid == [0; 32] && t.inputs[0].prev_index == 0xffff_ffff;
            if cb { r.fee += t.outputs[0].value.saturating_sub(reward(*h)); }
            r.ins += t.inputs.len() as u64; r.outs += t.outputs.len() as u64;
            let v: u64 = t.outputs.iter().map(|o| o.value).sum();
            for (i, o) in t.outputs.iter().enumerate() { let ty = type_of(&o.script).to_string();
                *r.types.entry(ty.clone()).or_insert(0) += 1; r.first.entry(ty).or_insert((*h, t.txid(), i as u32)); }
            if v > r.big_val.0 { r.big_val = (v, *h, t.txid()); }
            r.vol += v;
            let sz = t.ser_nowit().len();
            if sz > r.big_size.0 { r.big_size = (sz, *h, t.txid()); }
        }
        if last_ts > 0 { r.gaps.push(b.time.saturating_sub(last_ts)); }
        last_ts = b.time;
    }
    r
}
fn compare(suite: &str, inp: &str, st: &SimpleStats, r: &RefStats) {
    let c = "C15:figure_equals_independent_recomputation";
    check(st.n_valid_blocks == r.blocks, suite, c, &format!("{} blocks", inp), &st.n_valid_blocks.to_string(), &r.blocks.to_string());
    check(st.n_tx == r.txs, suite, c, &format!("{} transactions", inp), &st.n_tx.to_string(), &r.txs.to_string());
    check(st.n_tx_inputs == r.ins, suite, c, &format!("{} inputs", inp), &st.n_tx_inputs.to_string(), &r.ins.to_string());
    check(st.n_tx_outputs == r.outs, suite, c, &format!("{} outputs", inp), &st.n_tx_outputs.to_string(), &r.outs.to_string());
    check(st.n_tx_total_fee == r.fee, suite, "C15:total_fees", inp, &st.n_tx_total_fee.to_string(), &r.fee.to_string());
    check(st.n_tx_total_volume == r.vol, suite, "C15:total_volume", inp, &st.n_tx_total_volume.to_string(), &r.vol.to_string());
    let gv = (st.tx_biggest_value.0, st.tx_biggest_value.1, st.tx_biggest_value.2.to_byte_array());
    check(gv == r.big_val, suite, "C15:biggest_tx_by_value_first_on_ties", inp, &format!("{:?}", (gv.0, gv.1, hex(&gv.2[..4]))), &format!("{:?}", (r.big_val.0, r.big_val.1, hex(&r.big_val.2[..4]))));
    let gs = (st.tx_biggest_size.0, st.tx_biggest_size.1, st.tx_biggest_size.2.to_byte_array());
    check(gs == r.big_size, suite, "C15:biggest_tx_by_size_first_on_ties", inp, &format!("{:?}", (gs.0, gs.1, hex(&gs.2[..4]))), &format!("{:?}", (r.big_size.0, r.big_size.1, hex(&r.big_size.2[..4]))));
    check(st.block_sizes == r.sizes, suite, "C15:block_sizes", inp, &format!("{:?}", st.block_sizes), &format!("{:?}", r.sizes));
    check(st.t_between_blocks == r.gaps, suite, "C15:time_between_blocks_clamped_at_zero", inp, &format!("{:?}", st.t_between_blocks), &format!("{:?}", r.gaps));
    let gt: std::collections::BTreeMap<String, u64> = st.n_tx_types.iter().map(|(k, v)| (format!("{}", k), *v)).collect();
    check(gt == r.types, suite, "C15:per_script_type_counts", inp, &format!("{:?}", gt), &format!("{:?}", r.types));
    let gf: std::collections::BTreeMap<String, (u64, [u8; 32], u32)> = st.tx_first_occs.iter().map(|(k, v)| (format!("{}", k), (v.0, v.1.to_byte_array(), v.2))).collect();
    check(gf == r.first, suite, "C15:first_occurrence_per_script_type", inp, &format!("{:?}", gf.iter().map(|(k, v)| (k.clone(), v.0, v.2)).collect::<Vec<_>>()), &format!("{:?}", r.first.iter().map(|(k, v)| (k.clone(), v.0, v.2)).collect::<Vec<_>>()));
    let mean = |v: &Vec<u32>| if v.is_empty() { 0.0 } else { v.iter().map(|x| *x as u64).sum::<u64>() as f64 / v.len() as f64 };
    check(utils::get_mean(&st.block_sizes) == mean(&r.sizes), suite, "C15:exact_arithmetic_mean", &format!("{} mean block size", inp), &utils::get_mean(&st.block_sizes).to_string(), &mean(&r.sizes).to_string());
}
/// C15 (bounded: 2 random histories of 12 blocks with ties and non-monotonic timestamps; one history placed at the
/// 33rd subsidy era; a mean over values summing beyond 2^32)
#[test]
fn c15_figures_match_recomputation() {
    let suite = "c15_figures_match_recomputation";
    let mut cases = 0;
    for salt in 0..2u64 {
        let mut rng = Rng::new(150 + salt);
        let mut chain = gen_history(&mut rng, 12);
        // ties: two transactions of identical size and value that both beat every earlier one, in one block and across blocks
        let fat = |tag: u8| TxSpec::new(vec![TxIn::new([tag; 32], 0, vec![0x51; 20_000])], vec![TxOut::new(5_000_000_000_000, p2pkh_script(&[tag; 20]))]);
        chain[7].txs.push(fat(1)); chain[7].txs.push(fat(2)); chain[9].txs.push(fat(3));
        // non-monotonic timestamps
        chain[4].time = chain[3].time - 500; chain[5].time = chain[3].time + 7; chain[8].time = 1;
        relink(&mut chain);
        for base in [0u64, 6_719_995] {
            cases += 1;
            let heights: Vec<u64> = (0..12).map(|i| base + i).collect();
            let mut d = DataDir::new();
            for (i, b) in chain.iter().enumerate() { d.add(0, heights[i], b, ST_ACTIVE); }
            d.write();
            let blocks = match fetch_blocks(d.path(), "bitcoin", base, base + 11, false) { Ok(b) => b, Err(m) => { fail(suite, "C15:chain_parses", &format!("history {} base {}", salt, base), &m, "Ok"); continue; } };
            let mut st = SimpleStats::default();
            st.on_start(base).unwrap();
            for (i, b) in blocks.iter().enumerate() { st.on_block(b, heights[i]).unwrap(); }
            compare(suite, &format!("history {} heights {}..", salt, base), &st, &recompute(&chain, &heights));
            cases += 1;
            let r = std::panic::catch_unwind(std::panic::AssertUnwindSafe(|| st.on_complete(base + 11)));
            check(matches!(r, Ok(Ok(()))), suite, "C15:report_renders", &format!("history {}", salt), "panic/err", "Ok");
        }
    }
    cases += 1;
    let big = vec![u32::MAX, u32::MAX, 7, 0, u32::MAX];
    let want = (3.0 * u32::MAX as f64 + 7.0) / 5.0;
    check(utils::get_mean(&big) == want, suite, "C15:exact_arithmetic_mean", "[u32::MAX, u32::MAX, 7, 0, u32::MAX]", &utils::get_mean(&big).to_string(), &want.to_string());
    finish(suite, cases);
}
