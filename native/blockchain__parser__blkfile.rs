// lane N suite appended to src/blockchain/parser/blkfile.rs   (C03: file names, black box)

/// C03 (bounded: a catalogue of names): a block stored in a file named blk + digits + .dat (any zero padding) is found
/// under that number; a file with any other name is not a blk file
#[test]
fn c03_blk_file_names() {
    let suite = "c03_blk_file_names";
    let chain = make_chain(2, &mut |_| vec![]);
    let good: Vec<(&str, u64)> = vec![("blk00000.dat", 0), ("blk00042.dat", 42), ("blk7.dat", 7), ("blk0000000123.dat", 123), ("blk99999.dat", 99999),
        ("blk100000.dat", 100000), ("blk18446744073709551615.dat", u64::MAX)];
    let bad: Vec<(&str, u64)> = vec![("blk.dat", 0), ("blk00001.dat.dat", 1), ("blkblk7.dat", 7), ("00007.dat", 7), ("xblk00001.dat", 1), ("blk00001.dat.bak", 1),
        ("blk0001", 1), ("rev00001.dat", 1), ("blk-1.dat", 1), ("blk00001.DAT", 1), ("blk 1.dat", 1), ("blk1x.dat", 1), ("blk18446744073709551616.dat", 0), (".dat", 0), ("blk", 0)];
    let mut cases = 0;
    let run = |name: &str, no: u64| -> std::result::Result<Vec<std::result::Result<Option<[u8; 32]>, String>>, String> {
        let mut d = DataDir::new();
        d.add(no, 0, &chain[0], ST_ACTIVE); d.add(no, 1, &chain[1], ST_ACTIVE);
        d.set_file_name(no, name);
        d.write();
        fetch(d.path(), "bitcoin", 0, None, false, &[0, 1])
    };
    for (n, v) in &good { cases += 1;
        let r = run(n, *v);
        let ok = matches!(&r, Ok(x) if x.len() == 2 && matches!(x[0], Ok(Some(h)) if h == chain[0].hash()) && matches!(x[1], Ok(Some(h)) if h == chain[1].hash()));
        check(ok, suite, "C03:blk_file_number_from_name", &format!("{} holding the blocks the index places in file {}", n, v), &format!("{:?}", r.map(|x| x.iter().map(|y| y.is_ok()).collect::<Vec<_>>())), "both blocks delivered"); }
    for (n, v) in &bad { cases += 1;
        let r = run(n, *v);
        let delivered = matches!(&r, Ok(x) if x.iter().any(|y| matches!(y, Ok(Some(_)))));
        check(!delivered, suite, "C03:files_named_by_no_record_are_ignored", &format!("{} (not a blk file name) holding the blocks of file {}", n, v), "blocks delivered from it", "not collected as a blk file"); }
    finish(suite, cases);
}
