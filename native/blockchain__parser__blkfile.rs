// lane N helpers appended to src/blockchain/parser/blkfile.rs
pub fn is_open(b: &BlkFile) -> bool { b.reader.is_some() }

/// C03 (bounded: a catalogue of names): blk + digits + .dat (any zero padding) is a blk file with that number; nothing else is
#[test]
fn c03_blk_file_names() {
    let suite = "c03_blk_file_names";
    let good: Vec<(String, u64)> = vec![("blk00000.dat".into(), 0), ("blk00042.dat".into(), 42), ("blk7.dat".into(), 7), ("blk0000000123.dat".into(), 123),
        ("blk99999.dat".into(), 99999), ("blk100000.dat".into(), 100000), ("blk18446744073709551615.dat".into(), u64::MAX)];
    let bad = ["blk.dat", "blk00001.dat.dat", "blkblk7.dat", "00007.dat", "xblk00001.dat", "blk00001.dat.bak", "blk0001", "rev00001.dat", "blk-1.dat",
               "blk00001.DAT", "blk 1.dat", "blk1x.dat", "blk18446744073709551616.dat", "", ".dat", "blk"];
    let mut cases = 0;
    for (n, v) in &good { cases += 1; let g = BlkFile::parse_blk_index(n, "blk", ".dat"); check(g == Some(*v), suite, "C03:blk_file_number_from_name", n, &format!("{:?}", g), &format!("Some({})", v)); }
    for n in bad { cases += 1; let g = BlkFile::parse_blk_index(n, "blk", ".dat"); check(g.is_none(), suite, "C03:files_named_by_no_record_are_ignored", n, &format!("{:?}", g), "None"); }
    finish(suite, cases);
}
