// lane N suite appended to src/callbacks/mod.rs   (C14: hostile script / witness content)
use crate::callbacks::balances::Balances;
use crate::callbacks::csvdump::CsvDump;
use crate::callbacks::opreturn::OpReturn;
use crate::callbacks::simplestats::SimpleStats;
use crate::callbacks::unspentcsvdump::UnspentCsvDump;

fn poisons(rng: &mut Rng) -> Vec<Vec<u8>> {
    let thorough = std::env::var("VERIF_TIER").map(|t| t == "thorough").unwrap_or(false);
    let mut v: Vec<Vec<u8>> = vec![
        vec![], vec![0x6a], vec![0x6a, 0x4c], vec![0x6a, 0x4d, 0x01], vec![0x6a, 0x4e, 0xff, 0xff, 0xff, 0xff], vec![0x6a, 0x05, 0x41],
        vec![0x6a, 0x02, 0xff, 0xfe], vec![0x6a, 0x03, 0xc3, 0x28, 0xa0], vec![0x4c], vec![0x4d, 0xff], vec![0x4e, 0xff, 0xff, 0xff, 0x7f, 0x00],
        vec![0x4b], vec![0x01], vec![0x00, 0x01, 0x00], vec![0x00, 0x29], vec![0x51, 0x01, 0xaa], vec![0x60, 0x28], vec![0x00, 0x15, 1, 2, 3],
        vec![0x76, 0xa9, 0x14], vec![0x76, 0xa9, 0x4c, 0x14], vec![0xa9, 0x14, 0x87], vec![0x21, 0xac], vec![0x41], vec![0x52, 0x21, 0x53, 0xae], vec![0x51, 0xae], vec![0xff], vec![0x50], vec![0x61; 50],
    ];
    let mut nasty = vec![0x00, 0x22]; nasty.extend(vec![7u8; 34]); v.push(nasty);                       // v0 witness program of illegal length 34
    v.push([vec![0x51, 0x20], vec![9u8; 31]].concat());                                                   // v1 lookalike, one byte short
    v.push((0..3000).flat_map(|i| vec![0x01, i as u8]).collect());                                        // thousands of pushes
    v.push(rng.bytes(520)); v.push(rng.bytes(10_001)); v.push(vec![0xEE; 70_000]);                        // (a length beyond u16: 5-byte CompactSize)
    let mut straddle = vec![0x6a, 0x4e, 0x02, 0x00, 0x01, 0x00]; straddle.extend(vec![0x61u8; 65_535]); straddle.extend_from_slice(&[0xc3, 0xa9, 0x62]); v.push(straddle);   // OP_RETURN text > 64 KiB, a 2-byte character across byte 65536
    let mut bad = vec![0x6a, 0x4d, 0x30, 0x75]; bad.extend(vec![0xffu8; 30_000]); v.push(bad);                                       // 30000 invalid bytes (90000 bytes once decoded lossily)
    v.push(vec![0x4e, 0xff, 0xff, 0xff, 0xff, 1, 2, 3]); v.push(vec![0x76, 0xa9, 0x4e, 0xf9, 0xff, 0xff, 0xff, 0x88, 0xac]);          // PUSHDATA4: offset + length reaches 2^32
    if thorough { v.push(rng.bytes(100_000)); for _ in 0..60 { let n = rng.below(90) as usize; v.push(rng.bytes(n)); } }
    for op in [0x00u8, 0x4f, 0x50, 0x62, 0x65, 0x6a, 0x7e, 0x89, 0xb1, 0xba, 0xfe] { let n = rng.below(20) as usize; let mut s = vec![op]; s.extend(rng.bytes(n)); v.push(s); }
    v
}
fn build(poison: &[u8], place: usize) -> Vec<BlockSpec> {
    // 4 blocks; block 2 holds the transaction under attack; blocks 1 and 3 hold unrelated transactions
    let other = |tag: u8| TxSpec::new(vec![TxIn::new([tag; 32], 1, vec![0x51, tag])], vec![TxOut::new(1000 + tag as u64, vec![0x6a, 0x02, 0x68, 0x69]), TxOut::new(77, p2pkh_script(&[tag; 20]))]);
    let mut victim = TxSpec::new(vec![TxIn::new([0x33; 32], 0, vec![0x51]), TxIn::new([0x34; 32], 2, vec![])],
        vec![TxOut::new(11, vec![0x51]), TxOut::new(12, p2pkh_script(&[0x44; 20])), TxOut::new(13, p2pkh_script(&[0x45; 20])),
             TxOut::new(0, vec![0x6a, 0x04, 0x6b, 0x65, 0x65, 0x70])]);   // OP_RETURN "keep": its opreturn line must not depend on output 0
    match place { 0 => victim.outputs[0].script = poison.to_vec(), 1 => victim.inputs[0].script_sig = poison.to_vec(),
        _ => victim.witness = Some(vec![vec![poison.to_vec(), vec![]], vec![]]) }
    let mut chain = make_chain(4, &mut |h| match h { 1 => vec![other(1)], 2 => vec![other(2), victim.clone(), other(3)], 3 => vec![other(4)], _ => vec![] });
    relink(&mut chain);
    chain
}
/// projection of the outputs that must not depend on the poisoned field: per callback a sorted list of lines with the
/// txid/blockhash columns blanked (they legitimately change with the field) and the poisoned row itself removed
fn observe(chain: &[BlockSpec], coin: &str, place: usize) -> std::result::Result<Vec<String>, String> {
    let d = simple_dir(chain); d.write();
    let mut obs: Vec<String> = vec![];
    let out = tempfile::tempdir().unwrap();
    let p = out.path().to_str().unwrap().to_string();
    let m = CsvDump::build_subcommand().get_matches_from(vec!["csvdump", &p]);
    drive_with(d.path(), coin, 0, None, false, Box::new(CsvDump::new(&m).map_err(|e| e.to_string())?))?;
    let m = UnspentCsvDump::build_subcommand().get_matches_from(vec!["unspentcsvdump", &p]);
    drive_with(d.path(), coin, 0, None, false, Box::new(UnspentCsvDump::new(&m).map_err(|e| e.to_string())?))?;
    let m = Balances::build_subcommand().get_matches_from(vec!["balances", &p]);
    drive_with(d.path(), coin, 0, None, false, Box::new(Balances::new(&m).map_err(|e| e.to_string())?))?;
    drive_with(d.path(), coin, 0, None, false, Box::new(SimpleStats::default()))?;
    let mut op_err: Option<String> = None;
    let printed = capture_stdout(|| { if let Err(e) = drive_with(d.path(), coin, 0, None, false, Box::new(OpReturn::new(&OpReturn::build_subcommand().get_matches_from(vec!["opreturn"])).unwrap())) { op_err = Some(e); } });
    if let Some(e) = op_err { return Err(e); }
    let victim = hex_rev(&chain[2].txs[2].txid());
    let rd = |n: &str| csv_lines(&out.path().join(n));
    for l in rd("blocks-0-3.csv") { let c: Vec<&str> = l.split(';').collect(); obs.push(format!("B;{};{};{};{};{}", c[1], c[2], c[6], c[7], c[8])); }
    obs.push(format!("T;{}", rd("transactions-0-3.csv").len()));
    for l in rd("tx_in-0-3.csv") { let c: Vec<&str> = l.split(';').collect(); if c[0] == victim && place == 1 && c[2] == "0" { continue; } obs.push(format!("I;{};{};{};{}", c[1], c[2], c[3], c[4])); }
    for l in rd("tx_out-0-3.csv") { let c: Vec<&str> = l.split(';').collect(); if c[0] == victim && place == 0 && c[1] == "0" { continue; } obs.push(format!("O;{};{};{};{}", c[1], c[2], c[3], c[4])); }
    for l in rd("unspent-0-3.csv") { let c: Vec<&str> = l.split(';').collect(); if c[0] == victim && place == 0 && c[1] == "0" { continue; } obs.push(format!("U;{};{};{};{}", c[1], c[2], c[3], c[4])); }
    for l in rd("balances-0-3.csv") { obs.push(format!("A;{}", l)); }
    // opreturn lines of this chain's transactions (other threads may print too: select by txid), payload column only,
    // the poisoned output's own line excluded
    let ids: Vec<String> = chain.iter().flat_map(|b| b.txs.iter().map(|t| hex_rev(&t.txid()))).collect();
    let mut n_keep = 0;
    for l in printed.lines() { if let Some(id) = ids.iter().find(|id| l.contains(id.as_str())) {
        let data = l.split("data: ").nth(1).unwrap_or("");
        if *id == victim && data != "keep" { continue; }
        if *id == victim { n_keep += 1; }
        obs.push(format!("P;{}", data)); } }
    obs.push(format!("P-keep-lines;{}", n_keep));
    obs.sort();
    Ok(obs)
}
/// C14 (bounded: the poison catalogue x {scriptPubKey, scriptSig, witness item} x coins): every callback completes and
/// all rows not derived from the poisoned field are unchanged
#[test]
fn c14_hostile_field_content() {
    let suite = "c14_hostile_field_content";
    let thorough = std::env::var("VERIF_TIER").map(|t| t == "thorough").unwrap_or(false);
    let mut rng = Rng::new(14);
    let ps = poisons(&mut rng);
    let coins: Vec<&str> = if thorough { vec!["bitcoin", "testnet3", "namecoin", "litecoin", "dogecoin", "myriadcoin", "unobtanium", "noteblockchain"] } else { vec!["bitcoin", "litecoin"] };
    // one worker per coin: a run costs ~0.1 s of fixed pipeline start-up whatever the content, and only the opreturn pass
    // (stdout capture) is serialised
    let cases = std::sync::atomic::AtomicUsize::new(0);
    let (ps, cases_ref) = (&ps, &cases);
    std::thread::scope(|sc| { for coin in coins { sc.spawn(move || {
        for place in 0..3usize {
            let benign = p2pkh_script(&[0x46; 20]);
            let base = match observe(&build(if place == 0 { &benign[..] } else { &[0x51][..] }, place), coin, place) { Ok(b) => b, Err(m) => { fail(suite, "C14:baseline_runs", &format!("{} place {}", coin, place), &m, "Ok"); continue; } };
            for (i, p) in ps.iter().enumerate() {
                if !thorough && place > 0 && i % 4 != 0 && p.len() < 65_536 { continue; }
                cases_ref.fetch_add(1, std::sync::atomic::Ordering::Relaxed);
                let inp = format!("{} field={} content={}", coin, ["scriptPubKey", "scriptSig", "witness item"][place], if p.len() > 40 { format!("{}..({} bytes)", hex(&p[..40]), p.len()) } else { hex(p) });
                let chain = build(p, place);
                let r = std::panic::catch_unwind(std::panic::AssertUnwindSafe(|| observe(&chain, coin, place)));
                match r {
                    Err(_) => fail(suite, "C14:no_field_content_aborts_a_run", &inp, "panic inside a callback / evaluator", "run completes"),
                    Ok(Err(m)) => fail(suite, "C14:no_field_content_aborts_a_run", &inp, &m, "run completes"),
                    Ok(Ok(o)) => {
                        // an address derived from the poisoned output itself may add a balances row / change nothing else
                        let strip = |v: &Vec<String>| -> Vec<String> { v.iter().filter(|l| !(place == 0 && l.starts_with("A;"))).cloned().collect() };
                        let (a, b) = (strip(&o), strip(&base));
                        if a != b { let diff = a.iter().find(|l| !b.contains(l)).or_else(|| b.iter().find(|l| !a.contains(l))).cloned().unwrap_or_default();
                            fail(suite, "C14:rows_not_derived_from_the_field_are_unchanged", &inp, &format!("{} rows, first difference: {}", a.len(), &diff[..diff.len().min(120)]), &format!("{} rows as without the content", b.len())); }
                    }
                }
            }
        }
    }); } });
    finish(suite, cases.load(std::sync::atomic::Ordering::Relaxed));
}
