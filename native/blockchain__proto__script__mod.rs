// lane N suites appended to src/blockchain/proto/script/mod.rs  (C05, C06, C14, C16)
// Reference classifiers written from the property statements; addresses recomputed with
// base58::encode_check / hash160 / Address::from_witness_program (independent of the code under test
// except for the text encoders, which are trusted anyway).
use bitcoin::hashes::{hash160, Hash as _};
use bitcoin::{WitnessProgram, WitnessVersion};

#[derive(Debug, Clone, PartialEq)]
enum Tok { Op(u8), Data(Vec<u8>) }

fn is_noop(b: u8) -> bool { b == 0x61 || (0xb0..=0xb9).contains(&b) }
/// Bitcoin push rules; every push is a Push token here (also empty ones); None = a push runs past the end
fn instrs(b: &[u8]) -> Option<Vec<(u8, Option<Vec<u8>>)>> {
    let mut ip = 0; let mut v = vec![];
    while ip < b.len() {
        let op = b[ip];
        let (l, w): (usize, usize) = if op <= 75 { (op as usize, 0) } else if op == 0x4c {
            if ip + 2 > b.len() { return None; } (b[ip + 1] as usize, 1)
        } else if op == 0x4d {
            if ip + 3 > b.len() { return None; } (u16::from_le_bytes([b[ip + 1], b[ip + 2]]) as usize, 2)
        } else if op == 0x4e {
            if ip + 5 > b.len() { return None; } (u32::from_le_bytes([b[ip + 1], b[ip + 2], b[ip + 3], b[ip + 4]]) as usize, 4)
        } else { v.push((op, None)); ip += 1; continue; };
        let s = ip + 1 + w;
        if s + l > b.len() { return None; }
        v.push((op, Some(b[s..s + l].to_vec())));
        ip = s + l;
    }
    Some(v)
}
/// fork-coin token sequence: non-empty pushes are Data, everything else an Op, no-op opcodes dropped
fn fork_tokens(b: &[u8]) -> Option<Vec<Tok>> {
    Some(instrs(b)?.into_iter().filter_map(|(op, d)| match d {
        Some(d) if !d.is_empty() => Some(Tok::Data(d)),
        _ => if is_noop(op) { None } else { Some(Tok::Op(op)) },
    }).collect())
}
fn b58(version: u8, payload: &[u8]) -> String { let mut v = vec![version]; v.extend_from_slice(payload); bitcoin::base58::encode_check(&v) }
fn h160(b: &[u8]) -> Vec<u8> { hash160::Hash::hash(b).to_byte_array().to_vec() }

/// (type name, address, OP_RETURN payload) the property assigns to a fork-coin script
fn ref_fork(b: &[u8], ver: u8) -> (String, Option<String>, Option<String>) {
    use Tok::*;
    let t = match fork_tokens(b) { Some(t) => t, None => return ("NotRecognised".into(), None, None) };
    match t.as_slice() {
        [Op(0x76), Op(0xa9), Data(h), Op(0x88), Op(0xac)] => ("Pay2PublicKeyHash".into(), Some(b58(ver, h)), None),
        [Data(k), Op(0xac)] => ("Pay2PublicKey".into(), Some(b58(ver, &h160(k))), None),
        [Op(0xa9), Data(h), Op(0x87)] => ("Pay2ScriptHash".into(), Some(b58(5, h)), None),
        [Op(0x6a), Data(p)] => ("OpReturn".into(), None, Some(String::from_utf8_lossy(p).into_owned())),
        [Op(0x52), Data(_), Data(_), Data(_), Op(0x53), Op(0xae)] => ("Pay2MultiSig".into(), None, None),
        _ => ("NotRecognised".into(), None, None),
    }
}
fn push(data: &[u8], form: u8) -> Vec<u8> {
    let mut v = match form {
        0 => { assert!(data.len() <= 75); vec![data.len() as u8] }
        1 => { assert!(data.len() <= 255); vec![0x4c, data.len() as u8] }
        2 => { let mut x = vec![0x4d]; x.extend_from_slice(&(data.len() as u16).to_le_bytes()); x }
        _ => { let mut x = vec![0x4e]; x.extend_from_slice(&(data.len() as u32).to_le_bytes()); x }
    };
    v.extend_from_slice(data);
    v
}
fn forms_for(len: usize) -> Vec<u8> { let mut f = vec![]; if len <= 75 { f.push(0); } if len <= 255 { f.push(1); } f.push(2); f.push(3); f }

/// scripts built from the templates: every push form for every slot, several payload lengths
fn template_scripts(rng: &mut Rng) -> Vec<Vec<u8>> {
    let mut out = vec![];
    for len in [1usize, 19, 20, 21, 32, 33, 65, 75, 76, 80, 255, 256, 520] {
        let d = rng.bytes(len);
        for f in forms_for(len) {
            let p = push(&d, f);
            out.push([vec![0x76, 0xa9], p.clone(), vec![0x88, 0xac]].concat());          // p2pkh
            out.push([p.clone(), vec![0xac]].concat());                                    // p2pk
            out.push([vec![0xa9], p.clone(), vec![0x87]].concat());                        // p2sh
            out.push([vec![0x6a], p.clone()].concat());                                    // op_return
            out.push([vec![0x52], p.clone(), p.clone(), p.clone(), vec![0x53, 0xae]].concat()); // 2-of-3
        }
    }
    // utf-8 flavours for OP_RETURN
    for txt in [&b"hello world"[..], "gr\u{fc}\u{df}e \u{4e16}\u{754c}".as_bytes(), &[0xff, 0xfe, 0x41][..], &[0xc3][..], &[0x41; 80][..], &[0x42; 76][..]] {
        for f in forms_for(txt.len()) { out.push([vec![0x6a], push(txt, f)].concat()); }
    }
    out
}
fn mutations(base: &[Vec<u8>], rng: &mut Rng) -> Vec<Vec<u8>> {
    let mut out = vec![];
    for s in base {
        if s.len() > 120 { continue; }
        for cut in 0..s.len() { out.push(s[..cut].to_vec()); }                                   // truncations
        for pos in 0..s.len() { for v in [0x00u8, 0x4c, 0x61, s[pos] ^ 1, s[pos].wrapping_add(1)] { let mut m = s.clone(); m[pos] = v; out.push(m); } } // one-byte mutations
        for pos in 0..=s.len() { for nop in [0x61u8, 0xb1, 0xb9, 0x00, 0x4c] { let mut m = s.clone(); m.insert(pos, nop); out.push(m); } }   // insertions (NOPs, OP_0, PUSHDATA1)
        let mut e = s.clone(); e.push(rng.next() as u8); out.push(e);                              // extension
    }
    out
}

/// size classes: the templates with pushes far beyond key / hash size (script sizes around 1059/1060 and 2^16), and
/// OP_RETURN texts beyond 64 KiB whose multi-byte characters straddle byte 65536
fn size_class_scripts(rng: &mut Rng) -> Vec<Vec<u8>> {
    let mut t: Vec<Vec<u8>> = vec![];
    for (k, len) in [(1usize, 1053usize), (1, 1054), (3, 400), (2, 5000), (1, 65_536)] {
        let mut s = vec![0x51]; for _ in 0..k { s.extend(push(&rng.bytes(len), if len > 65_535 { 3 } else { 2 })); } s.push(0x50 + k as u8); s.push(0xae); t.push(s); }
    let mut straddle = vec![0x61u8; 65_535]; straddle.extend_from_slice(&[0xc3, 0xa9, 0x62]);
    t.push([vec![0x6a], push(&straddle, 3)].concat());
    let mut aligned = vec![0x61u8; 65_534]; aligned.extend_from_slice(&[0xc3, 0xa9, 0x62, 0x63]);
    t.push([vec![0x6a], push(&aligned, 3)].concat());
    t.push([vec![0x6a], push(&vec![0xffu8; 30_000], 2)].concat());
    t.push([vec![0x6a], push(&vec![0x41u8; 65_535], 2)].concat());
    for tail in [&b"record\0"[..], &[0x00][..], &[0, 0, 0, 0][..], &b"\0lead"[..], &b" pad  "[..], &b"line\n"[..]] { for f in forms_for(tail.len()) { t.push([vec![0x6a], push(tail, f)].concat()); } }
    t
}
fn short(s: &[u8]) -> String { if s.len() > 200 { format!("{}..({} bytes)", hex(&s[..40]), s.len()) } else { hex(s) } }
fn base_catalogue(salt: u64) -> Vec<Vec<u8>> {
    let mut rng = Rng::new(salt);
    let t = template_scripts(&mut rng);
    let small: Vec<Vec<u8>> = t.iter().filter(|s| s.len() <= 120).cloned().collect();
    let mut all = t.clone();
    let thorough = std::env::var("VERIF_TIER").map(|t| t == "thorough").unwrap_or(false);
    let muts = mutations(&small, &mut rng);
    let step = if thorough { 1 } else { 7 };
    all.extend(muts.into_iter().enumerate().filter(|(i, _)| i % step == 0).map(|(_, m)| m));
    all.push(vec![]);
    for op in 0..=255u8 { all.push(vec![op]); let mut v = vec![op]; v.extend(rng.bytes(rng.0 as usize % 40)); all.push(v); }
    // zero-length pushes in data slots, huge PUSHDATA4 lengths
    all.push(vec![0x76, 0xa9, 0x00, 0x88, 0xac]); all.push(vec![0x76, 0xa9, 0x4c, 0x00, 0x88, 0xac]); all.push(vec![0x6a, 0x4c, 0x00]); all.push(vec![0x6a, 0x00]);
    all.push(vec![0x6a, 0x4e, 0xff, 0xff, 0xff, 0xff, 0x41]); all.push(vec![0x4e, 0xff, 0xff, 0xff, 0x7f]); all.push(vec![0x4d, 0xff, 0xff]);
    for _ in 0..(if thorough { 3000 } else { 300 }) { let n = rng.below(60) as usize; all.push(rng.bytes(n)); }
    all.extend(size_class_scripts(&mut rng));
    all
}

/// C06/C16/C14 (bounded: the catalogue above x the 6 fork coins): type, address and OP_RETURN payload equal the reference
#[test]
fn c06_fork_scripts_match_reference() {
    let suite = "c06_fork_scripts_match_reference";
    let cat = base_catalogue(6);
    let mut cases = 0;
    for (coin, ver) in [("namecoin", 0x34u8), ("litecoin", 0x30), ("dogecoin", 0x1e), ("myriadcoin", 0x32), ("unobtanium", 0x82), ("noteblockchain", 0x35)] {
        let v: u8 = coin.parse::<crate::blockchain::parser::types::CoinType>().unwrap().version_id;
        check(v == ver, suite, "C06:published_version_byte", coin, &format!("{:#x}", v), &format!("{:#x}", ver));
        for s in &cat {
            cases += 1;
            let (wt, wa, wp) = ref_fork(s, ver);
            let r = match std::panic::catch_unwind(|| eval_from_bytes(s, ver)) { Ok(r) => r, Err(_) => { fail(suite, "C06,C14:evaluation_never_panics", &format!("{} {}", coin, short(s)), "panic", "a result"); continue; } };
            let gt = format!("{}", r.pattern);
            let inp = format!("{} script={}", coin, short(s));
            let c = if wt == "OpReturn" || gt == "OpReturn" { "C06,C16:typed_by_template" } else { "C06:typed_by_template" };
            if !check(gt == wt, suite, c, &inp, &gt, &wt) { continue; }
            check(r.address == wa, suite, "C06:address_is_base58check_of_version_and_payload", &inp, &format!("{:?}", r.address), &format!("{:?}", wa));
            if let Some(p) = wp { let gp = match &r.pattern { ScriptPattern::OpReturn(x) => x.clone(), _ => "<none>".into() };
                check(gp == p, suite, "C16:fork_payload_is_the_pushed_data", &inp, &format!("{:?}", gp), &format!("{:?}", p)); }
        }
    }
    finish(suite, cases);
}

// ---- Bitcoin / testnet3 -----------------------------------------------------------------------------
fn class_unspendable(b: u8) -> bool {
    let illegal = matches!(b, 0x65 | 0x66 | 0xff | 0x7e | 0x7f | 0x80 | 0x81 | 0x83 | 0x84 | 0x85 | 0x86 | 0x8d | 0x8e | 0x95 | 0x96 | 0x97 | 0x98 | 0x99);
    let ret = matches!(b, 0x6a | 0x50 | 0x89 | 0x8a | 0x62) || b >= 0xba;
    illegal || ret
}
fn wit(b: &[u8]) -> Option<(u8, &[u8])> {
    if b.len() >= 4 && b.len() <= 42 && b[1] >= 2 && b[1] <= 40 && b.len() - 2 == b[1] as usize {
        if b[0] == 0 { Some((0, &b[2..])) } else if (0x51..=0x60).contains(&b[0]) { Some((b[0] - 0x50, &b[2..])) } else { None }
    } else { None }
}
fn ref_multisig(b: &[u8]) -> bool {
    let ins = match instrs(b) { Some(i) => i, None => return false };
    if ins.len() < 3 { return false; }
    let pushnum = |x: &(u8, Option<Vec<u8>>)| if x.1.is_none() && (0x51..=0x60).contains(&x.0) { Some(x.0 - 0x50) } else { None };
    let m = match pushnum(&ins[0]) { Some(m) => m, None => return false };
    let k = ins[1..].iter().take_while(|x| x.1.is_some()).count();
    if 1 + k + 2 != ins.len() { return false; }
    match pushnum(&ins[1 + k]) { Some(n) if n as usize == k => {}, _ => return false };
    m as usize <= k && ins[2 + k].1.is_none() && ins[2 + k].0 == 0xae
}
/// `OP_m <k pushes> <opcode that is not OP_1..OP_16> OP_CHECKMULTISIG`, m <= k: not an m-of-n multisig (n is not a
/// number), but rust-bitcoin 0.32 `is_multisig` skips the n == k comparison when the opcode is not a push-number
fn multisig_with_non_numeric_n(b: &[u8]) -> bool {
    let ins = match instrs(b) { Some(i) => i, None => return false };
    if ins.len() < 3 { return false; }
    let m = if ins[0].1.is_none() && (0x51..=0x60).contains(&ins[0].0) { ins[0].0 - 0x50 } else { return false };
    let k = ins[1..].iter().take_while(|x| x.1.is_some()).count();
    1 + k + 2 == ins.len() && ins[1 + k].1.is_none() && !(0x51..=0x60).contains(&ins[1 + k].0) && m as usize <= k
        && ins[2 + k].1.is_none() && ins[2 + k].0 == 0xae
}
/// (type, address, payload-if-single-push) for Bitcoin (ver 0x00) / testnet3 (0x6f)
fn ref_btc(b: &[u8], ver: u8) -> (String, Option<String>, Option<String>) {
    let (pk_ver, sh_ver, net) = if ver == 0 { (0x00u8, 0x05u8, bitcoin::Network::Bitcoin) } else { (0x6f, 0xc4, bitcoin::Network::Testnet) };
    if !b.is_empty() && b[0] == 0x6a {
        let payload = match instrs(&b[1..]) { Some(i) if i.len() == 1 && i[0].1.is_some() => {
            let p = i[0].1.clone().unwrap(); Some(String::from_utf8(p).unwrap_or_default()) }, _ => None };
        return ("OpReturn".into(), None, payload);
    }
    if !b.is_empty() && class_unspendable(b[0]) { return ("Unspendable".into(), None, None); }
    let n = b.len();
    if (n == 67 && b[0] == 65 && b[66] == 0xac) || (n == 35 && b[0] == 33 && b[34] == 0xac) { return ("Pay2PublicKey".into(), Some(b58(pk_ver, &h160(&b[1..n - 1]))), None); }
    if n == 25 && b[0] == 0x76 && b[1] == 0xa9 && b[2] == 0x14 && b[23] == 0x88 && b[24] == 0xac { return ("Pay2PublicKeyHash".into(), Some(b58(pk_ver, &b[3..23])), None); }
    if n == 23 && b[0] == 0xa9 && b[1] == 0x14 && b[22] == 0x87 { return ("Pay2ScriptHash".into(), Some(b58(sh_ver, &b[2..22])), None); }
    if let Some((v, prog)) = wit(b) {
        let addr = WitnessVersion::try_from(v).ok().and_then(|wv| WitnessProgram::new(wv, prog).ok()).map(|p| bitcoin::Address::from_witness_program(p, net).to_string());
        let ty = if v == 0 && prog.len() == 20 { "Pay2WitnessPublicKeyHash" } else if v == 0 && prog.len() == 32 { "Pay2WitnessScriptHash" } else if v == 1 && prog.len() == 32 { "Pay2Taproot" } else { "WitnessProgram" };
        return (ty.into(), addr, None);
    }
    if ref_multisig(b) { return ("Pay2MultiSig".into(), None, None); }
    ("NotRecognised".into(), None, None)
}
fn btc_catalogue() -> Vec<Vec<u8>> {
    let mut rng = Rng::new(5);
    let mut t: Vec<Vec<u8>> = vec![];
    let k33 = rng.bytes(33); let k65 = rng.bytes(65); let h20 = rng.bytes(20);
    t.push([vec![33], k33.clone(), vec![0xac]].concat()); t.push([vec![65], k65.clone(), vec![0xac]].concat());
    // P2PK keys that share bytes with the key of the script evaluated just before (each address depends on its own key only)
    t.push([vec![33], k65[..33].to_vec(), vec![0xac]].concat()); t.push([vec![65], [k33.clone(), k65[33..].to_vec()].concat(), vec![0xac]].concat());
    t.push([vec![65], k65.clone(), vec![0xac]].concat()); t.push([vec![33], k65[..33].to_vec(), vec![0xac]].concat()); t.push([vec![33], k33.clone(), vec![0xac]].concat());
    t.push([vec![0x76, 0xa9, 0x14], h20.clone(), vec![0x88, 0xac]].concat()); t.push([vec![0xa9, 0x14], h20.clone(), vec![0x87]].concat());
    for v in 0..=16u8 { for len in 2..=40usize { let mut s = vec![if v == 0 { 0 } else { 0x50 + v }, len as u8]; s.extend(rng.bytes(len)); t.push(s); } }
    for m in 0..=16u8 { for n in 0..=16u8 { for decl in [n, n.wrapping_add(1)] {
        let mut s = vec![if m == 0 { 0x00 } else { 0x50 + m }];
        for _ in 0..n { s.push(33); s.extend(rng.bytes(33)); }
        s.push(if decl == 0 { 0x00 } else { 0x50 + (decl % 17) }); s.push(0xae); t.push(s); } } }
    // every opcode byte in the n position of `OP_m <k keys> <n> OP_CHECKMULTISIG` (k = 1..=3, m = 1)
    for kk in 1..=3usize { for nop in 0..=255u8 { let mut s = vec![0x51]; for _ in 0..kk { s.push(33); s.extend(rng.bytes(33)); } s.push(nop); s.push(0xae); t.push(s); } }
    for txt in [&b"hello"[..], &[0x41; 75][..], &[0x42; 76][..], &[0x43; 80][..], &[0x44; 255][..], &[0x45; 300][..], "\u{4e16}\u{754c}".as_bytes(), &[0xff, 0xfe][..], &[][..],
                &b"hi\xe2\x82"[..], "caf\u{fffd} au lait".as_bytes(), &[0xef, 0xbf, 0xbd][..], &b"ok\xf0\x9f\x98"[..], &b"a\xc3"[..], &b"hi\xe2\x82A"[..], &b"\xe2\x82\xac ok"[..]] {
        for f in forms_for(txt.len()) { t.push([vec![0x6a], push(txt, f)].concat()); }
    }
    t.push(vec![0x6a]); t.push(vec![0x6a, 0x01, 0x41, 0x01, 0x42]); t.push(vec![0x6a, 0x51]); t.push(vec![0x6a, 0x4c]); t.push(vec![0x6a, 0x4c, 0x05, 0x41]);
    let small: Vec<Vec<u8>> = t.iter().filter(|s| s.len() <= 70).cloned().collect();
    let thorough = std::env::var("VERIF_TIER").map(|t| t == "thorough").unwrap_or(false);
    let step = if thorough { 1 } else { 23 };
    let muts = mutations(&small, &mut rng);
    t.extend(muts.into_iter().enumerate().filter(|(i, _)| i % step == 0).map(|(_, m)| m));
    t.push(vec![]);
    for op in 0..=255u8 { t.push(vec![op]); let n = rng.below(40) as usize; let mut v = vec![op]; v.extend(rng.bytes(n)); t.push(v); }
    for _ in 0..(if thorough { 3000 } else { 300 }) { let n = rng.below(70) as usize; t.push(rng.bytes(n)); }
    t.push(rng.bytes(10_500));
    t.extend(size_class_scripts(&mut rng));
    t
}
/// C05/C16/C14 (bounded: the catalogue above x {bitcoin, testnet3}): type, address and single-push payload equal the reference
#[test]
fn c05_bitcoin_scripts_match_reference() {
    let suite = "c05_bitcoin_scripts_match_reference";
    let cat = btc_catalogue();
    let mut cases = 0;
    for ver in [0x00u8, 0x6f] {
        for s in &cat {
            cases += 1;
            let (wt, wa, wp) = ref_btc(s, ver);
            let r = match std::panic::catch_unwind(|| eval_from_bytes(s, ver)) { Ok(r) => r, Err(_) => { fail(suite, "C05,C14:evaluation_never_panics", &format!("ver={:#x} {}", ver, short(s)), "panic", "a result"); continue; } };
            let gt = format!("{}", r.pattern);
            let inp = format!("version_id={:#x} script={}", ver, if s.len() > 200 { format!("{}..({} bytes)", hex(&s[..40]), s.len()) } else { hex(s) });
            let c = if wt == "NotRecognised" && gt == "Pay2MultiSig" && multisig_with_non_numeric_n(s) { "C05:script_type_equals_reference/multisig_with_non_numeric_n" }
                    else if wt == "OpReturn" || gt == "OpReturn" { "C05,C16:script_type_equals_reference" } else { "C05:script_type_equals_reference" };
            if !check(gt == wt, suite, c, &inp, &gt, &wt) { continue; }
            check(r.address == wa, suite, "C05:address_equals_reference", &inp, &format!("{:?}", r.address), &format!("{:?}", wa));
            if let Some(a) = &r.address { let ok = if ver == 0 { a.starts_with('1') || a.starts_with('3') || a.starts_with("bc1") } else { a.starts_with('m') || a.starts_with('n') || a.starts_with('2') || a.starts_with("tb1") };
                check(ok, suite, "C05:address_carries_the_network_prefix", &inp, a, "network prefix"); }
            if let Some(p) = wp { let gp = match &r.pattern { ScriptPattern::OpReturn(x) => x.clone(), _ => "<none>".into() };
                check(gp == p, suite, "C16:bitcoin_payload_is_exactly_the_pushed_data", &inp, &format!("{:?}", gp), &format!("{:?}", p)); }
        }
    }
    finish(suite, cases);
}
