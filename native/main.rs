// lane N kit -- appended to src/main.rs as `#[cfg(test)] pub mod verif_kit { .. }`.
// Builders for synthetic chains (blocks, transactions, blk files, LevelDB block index), reference
// encoders written from the Bitcoin wire format, and drivers that run the REAL ChainStorage /
// BlockchainParser / callbacks on them.  Nothing here proves anything: lane N replays contracts on
// concrete inputs (bounded stand-in + counterexample search for lanes V and K).

use std::fs::{self, File};
use std::io::{Seek, SeekFrom, Write};
use std::path::{Path, PathBuf};
use std::sync::{Arc, Mutex};

use bitcoin::hashes::{sha256d, Hash};
use clap::{ArgMatches, Command};
use rusty_leveldb::{Options, DB};

use crate::blockchain::parser::chain::ChainStorage;
use crate::blockchain::parser::types::CoinType;
use crate::blockchain::parser::BlockchainParser;
use crate::blockchain::proto::block::Block;
use crate::callbacks::Callback;
use crate::common::Result;
use crate::{BlockHeightRange, ParserOptions};

// ---- failure log --------------------------------------------------------------------------------
static FAILS: Mutex<Vec<String>> = Mutex::new(Vec::new());

pub fn fail(suite: &str, contract: &str, input: &str, got: &str, want: &str) {
    let cut = |s: &str| if s.len() > 600 { format!("{}..", &s[..600]) } else { s.to_string() };
    let line = format!("NATIVE-FAIL suite={} contract={} input=[{}] got=[{}] want=[{}]", suite, contract, cut(input), cut(got), cut(want));
    { let _g = STDOUT_LOCK.lock().unwrap_or_else(|e| e.into_inner()); println!("{}", line); }
    FAILS.lock().unwrap().push(format!("{}|{}", suite, line));
}
pub fn check(ok: bool, suite: &str, contract: &str, input: &str, got: &str, want: &str) -> bool {
    if !ok { fail(suite, contract, input, got, want); }
    ok
}
/// end of a suite: prints the number of evaluated cases and fails the test if anything was logged
pub fn finish(suite: &str, cases: usize) {
    let n = FAILS.lock().unwrap().iter().filter(|l| l.starts_with(&format!("{}|", suite))).count();
    { let _g = STDOUT_LOCK.lock().unwrap_or_else(|e| e.into_inner()); println!("NATIVE-DONE suite={} cases={} failures={}", suite, cases, n); }
    assert!(n == 0, "{} contract violation(s) in suite {}", n, suite);
}

// ---- deterministic pseudo random numbers (seeded by VERIF_SEED) ------------------------------
pub struct Rng(pub u64);
impl Rng {
    pub fn new(salt: u64) -> Rng {
        let seed: u64 = std::env::var("VERIF_SEED").ok().and_then(|s| s.parse().ok()).unwrap_or(0);
        Rng(0x9E37_79B9_7F4A_7C15 ^ seed.wrapping_mul(0x1000_0001) ^ salt.wrapping_mul(0xA24B_AED4_963E_E407) | 1)
    }
    pub fn next(&mut self) -> u64 {
        let mut x = self.0;
        x ^= x << 13; x ^= x >> 7; x ^= x << 17;
        self.0 = x;
        x.wrapping_mul(0x2545_F491_4F6C_DD1D)
    }
    pub fn below(&mut self, n: u64) -> u64 { if n == 0 { 0 } else { self.next() % n } }
    pub fn bytes(&mut self, n: usize) -> Vec<u8> { (0..n).map(|_| self.next() as u8).collect() }
}

pub fn thorough() -> bool { std::env::var("VERIF_TIER").map(|t| t == "thorough").unwrap_or(false) }
pub fn hex(b: &[u8]) -> String { b.iter().map(|x| format!("{:02x}", x)).collect() }
/// hashes are displayed byte-reversed (as rust-bitcoin and Bitcoin Core do)
pub fn hex_rev(b: &[u8]) -> String { b.iter().rev().map(|x| format!("{:02x}", x)).collect() }

// ---- reference encoders ----------------------------------------------------------------------------
/// canonical CompactSize
pub fn compact(n: u64) -> Vec<u8> {
    if n < 0xfd { vec![n as u8] }
    else if n <= 0xffff { let mut v = vec![0xfd]; v.extend_from_slice(&(n as u16).to_le_bytes()); v }
    else if n <= 0xffff_ffff { let mut v = vec![0xfe]; v.extend_from_slice(&(n as u32).to_le_bytes()); v }
    else { let mut v = vec![0xff]; v.extend_from_slice(&n.to_le_bytes()); v }
}
/// CompactSize in a chosen width (1, 3, 5 or 9 bytes; non-canonical encodings are legal on disk)
pub fn compact_w(n: u64, width: usize) -> Vec<u8> {
    match width {
        1 => { assert!(n < 0xfd); vec![n as u8] }
        3 => { assert!(n <= 0xffff); let mut v = vec![0xfd]; v.extend_from_slice(&(n as u16).to_le_bytes()); v }
        5 => { assert!(n <= 0xffff_ffff); let mut v = vec![0xfe]; v.extend_from_slice(&(n as u32).to_le_bytes()); v }
        _ => { let mut v = vec![0xff]; v.extend_from_slice(&n.to_le_bytes()); v }
    }
}
/// Bitcoin Core VARINT (block index): MSB base-128 with the "-1" trick
pub fn core_varint(mut n: u64) -> Vec<u8> {
    let mut tmp = Vec::new();
    loop {
        tmp.push((n & 0x7f) as u8 | if tmp.is_empty() { 0 } else { 0x80 });
        if n <= 0x7f { break; }
        n = (n >> 7) - 1;
    }
    tmp.reverse();
    tmp
}
pub fn sha256d_of(b: &[u8]) -> [u8; 32] { sha256d::Hash::hash(b).to_byte_array() }
/// Bitcoin merkle root: pairwise sha256d, the last hash of an odd level is paired with itself
pub fn ref_merkle(leaves: &[[u8; 32]]) -> [u8; 32] {
    assert!(!leaves.is_empty());
    let mut level: Vec<[u8; 32]> = leaves.to_vec();
    while level.len() > 1 {
        let mut next = Vec::new();
        let mut i = 0;
        while i < level.len() {
            let a = level[i];
            let b = if i + 1 < level.len() { level[i + 1] } else { level[i] };
            let mut buf = Vec::with_capacity(64);
            buf.extend_from_slice(&a); buf.extend_from_slice(&b);
            next.push(sha256d_of(&buf));
            i += 2;
        }
        level = next;
    }
    level[0]
}

// ---- transactions and blocks ----------------------------------------------------------------------
#[derive(Clone, Debug)]
pub struct TxIn { pub prev_txid: [u8; 32], pub prev_index: u32, pub script_sig: Vec<u8>, pub seq: u32, pub len_width: usize }
#[derive(Clone, Debug)]
pub struct TxOut { pub value: u64, pub script: Vec<u8>, pub len_width: usize }
#[derive(Clone, Debug)]
pub struct TxSpec {
    pub version: u32, pub inputs: Vec<TxIn>, pub outputs: Vec<TxOut>, pub locktime: u32,
    /// Some(stacks): serialise in segwit form (marker 00, flag 01, one stack per input)
    pub witness: Option<Vec<Vec<Vec<u8>>>>,
    pub in_count_width: usize, pub out_count_width: usize,
}
fn width_for(n: u64, w: usize) -> usize { if w != 0 { w } else if n < 0xfd { 1 } else if n <= 0xffff { 3 } else if n <= 0xffff_ffff { 5 } else { 9 } }
impl TxIn {
    pub fn new(prev_txid: [u8; 32], prev_index: u32, script_sig: Vec<u8>) -> TxIn { TxIn { prev_txid, prev_index, script_sig, seq: 0xffff_ffff, len_width: 0 } }
    pub fn coinbase(tag: u32) -> TxIn { TxIn { prev_txid: [0; 32], prev_index: 0xffff_ffff, script_sig: tag.to_le_bytes().to_vec(), seq: 0xffff_ffff, len_width: 0 } }
}
impl TxOut { pub fn new(value: u64, script: Vec<u8>) -> TxOut { TxOut { value, script, len_width: 0 } } }
impl TxSpec {
    pub fn new(inputs: Vec<TxIn>, outputs: Vec<TxOut>) -> TxSpec {
        TxSpec { version: 1, inputs, outputs, locktime: 0, witness: None, in_count_width: 0, out_count_width: 0 }
    }
    fn body(&self, v: &mut Vec<u8>) {
        v.extend(compact_w(self.inputs.len() as u64, width_for(self.inputs.len() as u64, self.in_count_width)));
        for i in &self.inputs {
            v.extend_from_slice(&i.prev_txid); v.extend_from_slice(&i.prev_index.to_le_bytes());
            v.extend(compact_w(i.script_sig.len() as u64, width_for(i.script_sig.len() as u64, i.len_width)));
            v.extend_from_slice(&i.script_sig); v.extend_from_slice(&i.seq.to_le_bytes());
        }
        v.extend(compact_w(self.outputs.len() as u64, width_for(self.outputs.len() as u64, self.out_count_width)));
        for o in &self.outputs {
            v.extend_from_slice(&o.value.to_le_bytes());
            v.extend(compact_w(o.script.len() as u64, width_for(o.script.len() as u64, o.len_width)));
            v.extend_from_slice(&o.script);
        }
    }
    /// witness-stripped serialisation (txid pre-image)
    pub fn ser_nowit(&self) -> Vec<u8> {
        let mut v = self.version.to_le_bytes().to_vec();
        self.body(&mut v);
        v.extend_from_slice(&self.locktime.to_le_bytes());
        v
    }
    /// serialisation as stored in the block (segwit form if `witness` is set)
    pub fn ser(&self) -> Vec<u8> {
        match &self.witness {
            None => self.ser_nowit(),
            Some(stacks) => {
                assert!(stacks.len() == self.inputs.len());
                let mut v = self.version.to_le_bytes().to_vec();
                v.push(0x00); v.push(0x01);
                self.body(&mut v);
                for st in stacks {
                    v.extend(compact(st.len() as u64));
                    for item in st { v.extend(compact(item.len() as u64)); v.extend_from_slice(item); }
                }
                v.extend_from_slice(&self.locktime.to_le_bytes());
                v
            }
        }
    }
    pub fn txid(&self) -> [u8; 32] { sha256d_of(&self.ser_nowit()) }
}
#[derive(Clone, Debug)]
pub struct BlockSpec {
    pub version: u32, pub prev: [u8; 32], pub merkle: Option<[u8; 32]>, pub time: u32, pub bits: u32, pub nonce: u32,
    /// raw AuxPoW section placed between header and tx count
    pub aux: Option<Vec<u8>>,
    pub txs: Vec<TxSpec>, pub tx_count_width: usize,
}
impl BlockSpec {
    pub fn new(prev: [u8; 32], nonce: u32, txs: Vec<TxSpec>) -> BlockSpec {
        BlockSpec { version: 1, prev, merkle: None, time: 1_300_000_000 + nonce, bits: 0x1d00ffff, nonce, aux: None, txs, tx_count_width: 0 }
    }
    pub fn merkle_root(&self) -> [u8; 32] {
        match self.merkle {
            Some(m) => m,
            None => if self.txs.is_empty() { [0; 32] } else { ref_merkle(&self.txs.iter().map(|t| t.txid()).collect::<Vec<_>>()) },
        }
    }
    pub fn header(&self) -> Vec<u8> {
        let mut v = self.version.to_le_bytes().to_vec();
        v.extend_from_slice(&self.prev); v.extend_from_slice(&self.merkle_root());
        v.extend_from_slice(&self.time.to_le_bytes()); v.extend_from_slice(&self.bits.to_le_bytes()); v.extend_from_slice(&self.nonce.to_le_bytes());
        v
    }
    pub fn hash(&self) -> [u8; 32] { sha256d_of(&self.header()) }
    pub fn ser(&self) -> Vec<u8> {
        let mut v = self.header();
        if let Some(a) = &self.aux { v.extend_from_slice(a); }
        v.extend(compact_w(self.txs.len() as u64, width_for(self.txs.len() as u64, self.tx_count_width)));
        for t in &self.txs { v.extend(t.ser()); }
        v
    }
}
/// a linked chain of n blocks, block h carrying `mk(h)` transactions after a coinbase
pub fn make_chain(n: u64, mk: &mut dyn FnMut(u64) -> Vec<TxSpec>) -> Vec<BlockSpec> {
    let mut out: Vec<BlockSpec> = Vec::new();
    let mut prev = [0u8; 32];
    for h in 0..n {
        let mut txs = vec![TxSpec::new(vec![TxIn::coinbase(h as u32)], vec![TxOut::new(50_0000_0000, p2pkh_script(&[h as u8; 20]))])];
        txs.extend(mk(h));
        let b = BlockSpec::new(prev, h as u32, txs);
        prev = b.hash();
        out.push(b);
    }
    out
}
pub fn p2pkh_script(h160: &[u8; 20]) -> Vec<u8> { let mut s = vec![0x76, 0xa9, 0x14]; s.extend_from_slice(h160); s.extend_from_slice(&[0x88, 0xac]); s }

// ---- data directories ------------------------------------------------------------------------------
pub const ST_ACTIVE: u64 = 5 | 8 | 16;       // VALID_SCRIPTS | HAVE_DATA | HAVE_UNDO
pub const ST_HEADER_ONLY: u64 = 2;           // VALID_TREE, no data
#[derive(Clone, Debug)]
pub struct IndexRec { pub hash: [u8; 32], pub version: u64, pub height: u64, pub status: u64, pub ntx: u64, pub file: u64, pub offset: u64, pub header: Option<[u8; 80]> }
impl IndexRec {
    pub fn value(&self) -> Vec<u8> {
        let mut v = Vec::new();
        v.extend(core_varint(self.version)); v.extend(core_varint(self.height)); v.extend(core_varint(self.status));
        v.extend(core_varint(self.ntx));
        // Core's CDiskBlockIndex: nFile only with HAVE_DATA|HAVE_UNDO, nDataPos only with HAVE_DATA, nUndoPos only with HAVE_UNDO,
        // then the 80-byte header (the parser must not depend on the undo position or the header)
        if self.status & (8 | 16) != 0 { v.extend(core_varint(self.file)); }
        if self.status & 8 != 0 { v.extend(core_varint(self.offset)); }
        if self.status & 16 != 0 { v.extend(core_varint(0)); }
        v.extend_from_slice(&self.header.unwrap_or([0u8; 80]));
        v
    }
}
pub struct DataDir {
    pub dir: tempfile::TempDir,
    /// file number -> (file name, content)
    pub files: Vec<(u64, String, Vec<u8>)>,
    pub recs: Vec<IndexRec>,
    pub extra_kv: Vec<(Vec<u8>, Vec<u8>)>,
    pub xor_key: Option<Vec<u8>>,
}
impl DataDir {
    pub fn new() -> DataDir { DataDir { dir: tempfile::tempdir().unwrap(), files: Vec::new(), recs: Vec::new(), extra_kv: Vec::new(), xor_key: None } }
    pub fn path(&self) -> &Path { self.dir.path() }
    fn file_mut(&mut self, no: u64) -> &mut Vec<u8> {
        if !self.files.iter().any(|f| f.0 == no) { self.files.push((no, format!("blk{:05}.dat", no), Vec::new())); }
        &mut self.files.iter_mut().find(|f| f.0 == no).unwrap().2
    }
    pub fn set_file_name(&mut self, no: u64, name: &str) { self.file_mut(no); self.files.iter_mut().find(|f| f.0 == no).unwrap().1 = name.to_string(); }
    /// appends magic | size | block to file `no` (after `gap` bytes of garbage) and returns the data offset
    pub fn put_block(&mut self, no: u64, magic: u32, raw: &[u8], gap: &[u8]) -> u64 {
        let f = self.file_mut(no);
        f.extend_from_slice(gap);
        f.extend_from_slice(&magic.to_le_bytes());
        f.extend_from_slice(&(raw.len() as u32).to_le_bytes());
        let off = f.len() as u64;
        f.extend_from_slice(raw);
        off
    }
    /// stores a block and its active index record
    pub fn add(&mut self, no: u64, height: u64, b: &BlockSpec, status: u64) -> u64 {
        let off = self.put_block(no, 0xd9b4bef9, &b.ser(), &[]);
        self.recs.push(IndexRec { hash: b.hash(), version: b.version as u64, height, status, ntx: b.txs.len() as u64, file: no, offset: off, header: None });
        off
    }
    pub fn write(&self) {
        for (_, name, content) in &self.files {
            let mut data = content.clone();
            if let Some(k) = &self.xor_key { for (i, b) in data.iter_mut().enumerate() { *b ^= k[i % k.len()]; } }
            File::create(self.path().join(name)).unwrap().write_all(&data).unwrap();
        }
        if let Some(k) = &self.xor_key { File::create(self.path().join("xor.dat")).unwrap().write_all(k).unwrap(); }
        let mut db = DB::open(self.path().join("index"), Options::default()).unwrap();
        for r in &self.recs {
            let mut key = vec![b'b']; key.extend_from_slice(&r.hash);
            db.put(&key, &r.value()).unwrap();
        }
        for (k, v) in &self.extra_kv { db.put(k, v).unwrap(); }
        db.flush().unwrap();
    }
}
/// one-file data directory for a chain
pub fn simple_dir(chain: &[BlockSpec]) -> DataDir {
    let mut d = DataDir::new();
    for (h, b) in chain.iter().enumerate() { d.add(0, h as u64, b, ST_ACTIVE); }
    d
}

// ---- running the real code ---------------------------------------------------------------------------
#[derive(Clone, Debug, PartialEq)]
pub enum Event { Start(u64), Block(u64, [u8; 32]), Complete(u64) }
pub struct Recorder { pub log: Arc<Mutex<Vec<Event>>> }
impl Callback for Recorder {
    fn build_subcommand() -> Command { unimplemented!() }
    fn new(_: &ArgMatches) -> Result<Self> { unimplemented!() }
    fn on_start(&mut self, h: u64) -> Result<()> { self.log.lock().unwrap().push(Event::Start(h)); Ok(()) }
    fn on_block(&mut self, b: &Block, h: u64) -> Result<()> { self.log.lock().unwrap().push(Event::Block(h, b.header.hash.to_byte_array())); Ok(()) }
    fn on_complete(&mut self, h: u64) -> Result<()> { self.log.lock().unwrap().push(Event::Complete(h)); Ok(()) }
    fn show_progress(&self) -> bool { false }
}
pub fn options(dir: &Path, coin: &str, start: u64, end: Option<u64>, verify: bool, callback: Box<dyn Callback>) -> ParserOptions {
    ParserOptions {
        callback, coin: coin.parse::<CoinType>().unwrap(), verify, blockchain_dir: dir.to_path_buf(),
        log_level_filter: log::LevelFilter::Off, range: BlockHeightRange::new(start, end).unwrap(),
    }
}
/// the real pipeline: ChainStorage::new + BlockchainParser::start with a recording callback.
/// NOTE: a read error inside start() calls process::exit(1) -- only use on inputs expected to parse.
pub fn drive(dir: &Path, coin: &str, start: u64, end: Option<u64>, verify: bool) -> std::result::Result<Vec<Event>, String> {
    let log = Arc::new(Mutex::new(Vec::new()));
    let opts = options(dir, coin, start, end, verify, Box::new(Recorder { log: log.clone() }));
    let storage = ChainStorage::new(&opts).map_err(|e| format!("ChainStorage::new: {}", e))?;
    BlockchainParser::new(opts, storage).start().map_err(|e| format!("start: {}", e))?;
    let v = log.lock().unwrap().clone();
    Ok(v)
}
/// the real pipeline with a real callback (csvdump, unspentcsvdump, balances, simplestats, opreturn)
pub fn drive_with(dir: &Path, coin: &str, start: u64, end: Option<u64>, verify: bool, cb: Box<dyn Callback>) -> std::result::Result<(), String> {
    let opts = options(dir, coin, start, end, verify, cb);
    let storage = ChainStorage::new(&opts).map_err(|e| format!("ChainStorage::new: {}", e))?;
    BlockchainParser::new(opts, storage).start().map_err(|e| format!("start: {}", e))
}
/// get_block for each height without the driver (errors are returned, not fatal)
pub fn fetch(dir: &Path, coin: &str, start: u64, end: Option<u64>, verify: bool, heights: &[u64]) -> std::result::Result<Vec<std::result::Result<Option<[u8; 32]>, String>>, String> {
    let log = Arc::new(Mutex::new(Vec::new()));
    let opts = options(dir, coin, start, end, verify, Box::new(Recorder { log }));
    let mut storage = ChainStorage::new(&opts).map_err(|e| format!("ChainStorage::new: {}", e))?;
    Ok(heights.iter().map(|h| match storage.get_block(*h) {
        Ok(Some(b)) => Ok(Some(b.header.hash.to_byte_array())),
        Ok(None) => Ok(None),
        Err(e) => Err(format!("{}", e)),
    }).collect())
}
// ---- AuxPoW sections (C12) ----
pub fn merkle_branch(rng: &mut Rng, n: usize) -> Vec<u8> {
    let mut v = compact(n as u64);
    for _ in 0..n { v.extend(rng.bytes(32)); }
    v.extend_from_slice(&(rng.next() as u32).to_le_bytes());
    v
}
/// a merkle branch whose length prefix is written in a CompactSize of `width` bytes (0 = minimal; 3 / 5 / 9 = the 0xfd / 0xfe / 0xff forms)
pub fn merkle_branch_w(rng: &mut Rng, n: usize, width: usize) -> Vec<u8> {
    let mut v = if width == 0 { compact(n as u64) } else { compact_w(n as u64, width) };
    for _ in 0..n { v.extend(rng.bytes(32)); }
    v.extend_from_slice(&(rng.next() as u32).to_le_bytes());
    v
}
pub fn aux_section_w(rng: &mut Rng, segwit_coinbase: bool, n1: usize, w1: usize, n2: usize, w2: usize) -> Vec<u8> {
    let mut cb = TxSpec::new(vec![TxIn::coinbase(rng.next() as u32)], vec![TxOut::new(25_0000_0000, p2pkh_script(&[3; 20])), TxOut::new(0, vec![0x6a, 0x24, 0xaa, 0x21, 0xa9, 0xed])]);
    cb.inputs[0].script_sig = rng.bytes(60);
    if segwit_coinbase { cb.witness = Some(vec![vec![vec![0u8; 32]]]); }
    let mut v = cb.ser();
    v.extend(rng.bytes(32));
    v.extend(merkle_branch_w(rng, n1, w1)); v.extend(merkle_branch_w(rng, n2, w2));
    v.extend(rng.bytes(80));
    v
}
pub fn aux_section(rng: &mut Rng, segwit_coinbase: bool, n1: usize, n2: usize) -> Vec<u8> {
    let mut cb = TxSpec::new(vec![TxIn::coinbase(rng.next() as u32)], vec![TxOut::new(25_0000_0000, p2pkh_script(&[3; 20])), TxOut::new(0, vec![0x6a, 0x24, 0xaa, 0x21, 0xa9, 0xed])]);
    cb.inputs[0].script_sig = rng.bytes(60);
    if segwit_coinbase { cb.witness = Some(vec![vec![vec![0u8; 32]]]); }
    let mut v = cb.ser();
    v.extend(rng.bytes(32));                       // parent block hash
    v.extend(merkle_branch(rng, n1)); v.extend(merkle_branch(rng, n2));
    v.extend(rng.bytes(80));                       // parent header
    v
}
pub fn csv_lines(p: &PathBuf) -> Vec<String> {
    fs::read_to_string(p).map(|s| s.lines().map(|l| l.to_string()).collect()).unwrap_or_default()
}
pub fn sparse_write(path: &Path, at: u64, data: &[u8]) {
    let mut f = fs::OpenOptions::new().create(true).write(true).open(path).unwrap();
    f.seek(SeekFrom::Start(at)).unwrap();
    f.write_all(data).unwrap();
}

// ---- spend histories (C07 / C08 / C15) ------------------------------------------------------------
pub fn b58check(version: u8, payload: &[u8]) -> String { let mut v = vec![version]; v.extend_from_slice(payload); bitcoin::base58::encode_check(&v) }
pub fn hash160_of(b: &[u8]) -> Vec<u8> { bitcoin::hashes::hash160::Hash::hash(b).to_byte_array().to_vec() }
/// address the property assigns to an output script of the kinds used by gen_history (Bitcoin main net)
pub fn addr_of(script: &[u8]) -> Option<String> {
    let n = script.len();
    if n == 25 && script[0] == 0x76 && script[1] == 0xa9 && script[2] == 0x14 && script[23] == 0x88 && script[24] == 0xac { return Some(b58check(0, &script[3..23])); }
    if (n == 35 && script[0] == 33 && script[34] == 0xac) || (n == 67 && script[0] == 65 && script[66] == 0xac) { return Some(b58check(0, &hash160_of(&script[1..n - 1]))); }
    if n == 23 && script[0] == 0xa9 && script[1] == 0x14 && script[22] == 0x87 { return Some(b58check(5, &script[2..22])); }
    // witness programs (BIP141/173/350): version opcode, one push of 2..=40 bytes; v0 only with 20 or 32 bytes
    if n >= 4 && n <= 42 && (script[0] == 0 || (0x51..=0x60).contains(&script[0])) && script[1] as usize == n - 2 {
        let ver = if script[0] == 0 { 0 } else { script[0] - 0x50 };
        if ver == 0 && n != 22 && n != 34 { return None; }
        return Some(segwit_addr("bc", ver, &script[2..]));
    }
    None
}
/// independent bech32 / bech32m encoder (BIP173 / BIP350)
pub fn segwit_addr(hrp: &str, ver: u8, prog: &[u8]) -> String {
    const CH: &[u8] = b"qpzry9x8gf2tvdw0s3jn54khce6mua7l";
    fn polymod(v: &[u8]) -> u32 { let g = [0x3b6a57b2u32, 0x26508e6d, 0x1ea119fa, 0x3d4233dd, 0x2a1462b3]; let mut c = 1u32;
        for x in v { let b = c >> 25; c = ((c & 0x1ffffff) << 5) ^ (*x as u32); for i in 0..5 { if (b >> i) & 1 == 1 { c ^= g[i]; } } } c }
    let mut data = vec![ver];
    let (mut acc, mut bits) = (0u32, 0u32);
    for b in prog { acc = (acc << 8) | *b as u32; bits += 8; while bits >= 5 { bits -= 5; data.push(((acc >> bits) & 31) as u8); } }
    if bits > 0 { data.push(((acc << (5 - bits)) & 31) as u8); }
    let mut v: Vec<u8> = hrp.bytes().map(|c| c >> 5).collect(); v.push(0); v.extend(hrp.bytes().map(|c| c & 31)); v.extend(&data); v.extend([0u8; 6]);
    let m = polymod(&v) ^ (if ver == 0 { 1 } else { 0x2bc830a3 });
    let mut out = format!("{}1", hrp);
    for d in &data { out.push(CH[*d as usize] as char); }
    for i in 0..6 { out.push(CH[((m >> (5 * (5 - i))) & 31) as usize] as char); }
    out
}
/// a random spend history: fan-in / fan-out, spends inside the creating block, spends of unknown outpoints,
/// address-less outputs, zero values, a duplicated txid, more than 256 outputs, P2PK and P2PKH of one key
pub fn gen_history(rng: &mut Rng, nblocks: u64) -> Vec<BlockSpec> {
    let keys: Vec<Vec<u8>> = (0..6).map(|i| { let mut k = vec![0x02]; k.extend(vec![i as u8 + 1; 32]); k }).collect();
    let mut spendable: Vec<([u8; 32], u32)> = Vec::new();
    let mut dup_done = false;
    let mut k: u32 = 0;
    make_chain(nblocks, &mut |h| {
        let ntx = if h == 1 { 1 + rng.below(3) as usize } else { rng.below(4) as usize };
        let mut txs: Vec<TxSpec> = Vec::new();
        for t in 0..ntx {
            k += 1;
            let nin = 1 + rng.below(3) as usize;
            let mut inputs = Vec::new();
            for _ in 0..nin {
                let pick = rng.below(10);
                if pick < 7 && !spendable.is_empty() { let i = rng.below(spendable.len() as u64) as usize; let (tx, ix) = spendable.swap_remove(i); inputs.push(TxIn::new(tx, ix, vec![0x51])); }
                else if pick < 8 && !txs.is_empty() { let p: &TxSpec = &txs[txs.len() - 1]; inputs.push(TxIn::new(p.txid(), rng.below(p.outputs.len() as u64) as u32, vec![])); }   // spend inside the creating block
                else { let mut u = [0xEEu8; 32]; u[0] = k as u8; inputs.push(TxIn::new(u, rng.below(3) as u32, vec![0x00])); }                        // unknown outpoint
            }
            let nout = if h == 3 && t == 0 { 300 } else { 1 + rng.below(4) as usize };
            let mut outputs = Vec::new();
            for _ in 0..nout {
                let key = &keys[rng.below(keys.len() as u64) as usize];
                let script = match rng.below(8) {
                    0 => { let mut s = vec![33]; s.extend_from_slice(key); s.push(0xac); s }                  // P2PK
                    1 | 2 | 3 => p2pkh_script(&{ let mut a = [0u8; 20]; a.copy_from_slice(&hash160_of(key)); a }),   // P2PKH of the same key
                    4 => { let mut s = vec![0xa9, 0x14]; s.extend(vec![k as u8; 20]); s.push(0x87); s }      // P2SH
                    5 => vec![0x6a, 0x02, 0x68, 0x69],                                                    // OP_RETURN
                    6 => { let mut s = vec![0x51, 33]; s.extend_from_slice(key); s.extend([0x51, 0xae]); s }  // 1-of-1 multisig
                    _ => vec![0x51],                                                                      // nonstandard
                };
                let value = if rng.below(6) == 0 { 0 } else { rng.below(5_000_000_000) };
                outputs.push(TxOut::new(value, script));
            }
            if h == 1 && t == 0 {
                // an address that owns nothing but zero-value outputs (two of them), never spent
                outputs.push(TxOut::new(0, p2pkh_script(&[0xA7; 20]))); outputs.push(TxOut::new(0, p2pkh_script(&[0xA7; 20])));
            }
            let mut tx = TxSpec::new(inputs, outputs);
            tx.locktime = k;
            let id = tx.txid();
            for i in 0..tx.outputs.len() { if rng.below(3) != 0 && !(h == 1 && t == 0 && i + 2 >= tx.outputs.len()) { spendable.push((id, i as u32)); } }
            txs.push(tx);
        }
        txs
    }).into_iter().enumerate().map(|(h, mut b)| {
        // a duplicated txid: block 5 repeats the coinbase of block 2 (pre-BIP30 style)
        if h == 5 && !dup_done { dup_done = true; b.txs[0] = TxSpec::new(vec![TxIn::coinbase(2)], vec![TxOut::new(50_0000_0000, p2pkh_script(&[2u8; 20]))]); }
        b
    }).collect::<Vec<_>>()
}
/// fixes prev-hash links after edits (hashes change when transactions are replaced)
pub fn relink(chain: &mut Vec<BlockSpec>) { let mut prev = [0u8; 32]; for b in chain.iter_mut() { b.prev = prev; b.merkle = None; prev = b.hash(); } }
/// reference UTXO set of heights s..=last: (txid display hex, index) -> (height, value, address)
pub fn ref_utxo(chain: &[BlockSpec], s: u64, last: u64) -> std::collections::BTreeMap<(String, u32), (u64, u64, String)> {
    let mut m = std::collections::BTreeMap::new();
    for h in s..=last { for tx in &chain[h as usize].txs {
        for i in &tx.inputs { m.remove(&(hex_rev(&i.prev_txid), i.prev_index)); }
        let id = hex_rev(&tx.txid());
        for (ix, o) in tx.outputs.iter().enumerate() { if let Some(a) = addr_of(&o.script) { m.insert((id.clone(), ix as u32), (h, o.value, a)); } }
    } }
    m
}

/// script type name (Display of ScriptPattern) of the script shapes produced by gen_history, Bitcoin rules
pub fn type_of(script: &[u8]) -> &'static str {
    let n = script.len();
    if n > 0 && script[0] == 0x6a { return "OpReturn"; }
    if n > 0 && script[0] == 0x50 { return "Unspendable"; }                      // OP_RESERVED: provably unspendable
    if n == 22 && script[0] == 0 && script[1] == 0x14 { return "Pay2WitnessPublicKeyHash"; }
    if n == 34 && script[0] == 0 && script[1] == 0x20 { return "Pay2WitnessScriptHash"; }
    if n == 34 && script[0] == 0x51 && script[1] == 0x20 { return "Pay2Taproot"; }
    if n >= 4 && n <= 42 && (script[0] == 0 || (0x51..=0x60).contains(&script[0])) && script[1] as usize == n - 2 { return "WitnessProgram"; }
    if n == 25 && script[0] == 0x76 && script[24] == 0xac { return "Pay2PublicKeyHash"; }
    if (n == 35 && script[0] == 33 && script[34] == 0xac) || (n == 67 && script[0] == 65 && script[66] == 0xac) { return "Pay2PublicKey"; }
    if n == 23 && script[0] == 0xa9 && script[22] == 0x87 { return "Pay2ScriptHash"; }
    if n > 3 && script[n - 1] == 0xae && (0x51..=0x60).contains(&script[0]) { return "Pay2MultiSig"; }
    "NotRecognised"
}
/// blocks of heights s..=last fetched through the real ChainStorage (no driver): Err(text) on the first failure
pub fn fetch_blocks(dir: &Path, coin: &str, s: u64, last: u64, verify: bool) -> std::result::Result<Vec<Block>, String> {
    let log = Arc::new(Mutex::new(Vec::new()));
    let opts = options(dir, coin, s, None, verify, Box::new(Recorder { log }));
    let mut storage = ChainStorage::new(&opts).map_err(|e| format!("ChainStorage::new: {}", e))?;
    let mut v = Vec::new();
    for h in s..=last { match storage.get_block(h) { Ok(Some(b)) => v.push(b), Ok(None) => return Err(format!("height {} missing", h)), Err(e) => return Err(format!("height {}: {}", h, e)) } }
    Ok(v)
}

// ---- log capture: the callbacks report their totals / figures through the `log` facade ------------
pub struct CaptureLogger;
static LOGS: Mutex<Vec<(String, String)>> = Mutex::new(Vec::new());
static LOGGER_ONCE: std::sync::Once = std::sync::Once::new();
impl log::Log for CaptureLogger {
    fn enabled(&self, m: &log::Metadata) -> bool { m.level() <= log::Level::Info }
    fn log(&self, r: &log::Record) { if self.enabled(r.metadata()) { LOGS.lock().unwrap().push((format!("{:?}", std::thread::current().id()), format!("{}", r.args()))); } }
    fn flush(&self) {}
}
/// installs the capturing logger (once per process) and clears this thread's captured lines
pub fn log_begin() {
    LOGGER_ONCE.call_once(|| { let _ = log::set_boxed_logger(Box::new(CaptureLogger)); log::set_max_level(log::LevelFilter::Info); });
    let me = format!("{:?}", std::thread::current().id());
    LOGS.lock().unwrap().retain(|(t, _)| *t != me);
}
/// everything logged by this thread since log_begin()
pub fn log_text() -> String {
    let me = format!("{:?}", std::thread::current().id());
    LOGS.lock().unwrap().iter().filter(|(t, _)| *t == me).map(|(_, l)| l.clone()).collect::<Vec<_>>().join("\n")
}
/// open file descriptors of this process that point into `dir` (Linux): returns the file names
pub fn open_files_in(dir: &Path) -> Vec<String> {
    let mut v = Vec::new();
    if let Ok(rd) = fs::read_dir("/proc/self/fd") {
        for e in rd.flatten() { if let Ok(t) = fs::read_link(e.path()) { if t.starts_with(dir) && t.parent() == Some(dir) { v.push(t.file_name().unwrap().to_string_lossy().to_string()); } } }
    }
    v.sort();
    v
}

// ---- stdout capture (the opreturn callback prints with println!) ------------------------------------
pub static STDOUT_LOCK: Mutex<()> = Mutex::new(());
unsafe extern "C" { fn dup(fd: i32) -> i32; fn dup2(a: i32, b: i32) -> i32; fn close(fd: i32) -> i32; }
/// runs f with file descriptor 1 redirected into a temp file and returns what was written.  Other test threads may
/// print meanwhile (their lines end up here too): callers must filter by content.  The kit's own NATIVE-* lines are
/// serialised with the same lock and cannot be swallowed.  (The suites run with --nocapture.)  libtest's own progress
/// prefix `test <name> ... ` is removed from the captured text (see below).
pub fn capture_stdout<F: FnOnce()>(f: F) -> String {
    use std::os::unix::io::AsRawFd;
    let _g = STDOUT_LOCK.lock().unwrap_or_else(|e| e.into_inner());
    let _ = std::io::stdout().flush();
    let tmp = tempfile::NamedTempFile::new().unwrap();
    let out;
    unsafe {
        let saved = dup(1);
        dup2(tmp.as_file().as_raw_fd(), 1);
        let r = std::panic::catch_unwind(std::panic::AssertUnwindSafe(f));
        let _ = std::io::stdout().flush();
        dup2(saved, 1);
        close(saved);
        out = fs::read_to_string(tmp.path()).unwrap_or_default();
        if let Err(e) = r { std::panic::resume_unwind(e); }
    }
    // libtest's main thread reports a finished test of ANOTHER suite as `test <name> ... ` and `ok\n` in two writes; when the
    // first lands while fd 1 is redirected, the next line printed by the code under test is glued behind it.  Strip exactly
    // that prefix (a single path-like token between `test ` and ` ... `) so the program's own line is seen as printed.
    out.split_inclusive('\n').map(|l| {
        if l.starts_with("test ") { if let Some(p) = l.find(" ... ") { let name = &l[5..p];
            if !name.is_empty() && name.chars().all(|c| c.is_ascii_alphanumeric() || c == '_' || c == ':') { return l[p + 5..].to_string(); } } }
        l.to_string() }).collect()
}
