// lane N suites appended to src/blockchain/parser/chain.rs   (C03, C04, C09, C11, C17)
use bitcoin::hashes::Hash as _;

fn hashes(chain: &[BlockSpec]) -> Vec<[u8; 32]> { chain.iter().map(|b| b.hash()).collect() }
fn short(h: &[u8; 32]) -> String { hex(&h[..4]) }
fn fetch_all(d: &DataDir, coin: &str, n: u64, verify: bool) -> std::result::Result<Vec<std::result::Result<Option<[u8; 32]>, String>>, String> {
    fetch(d.path(), coin, 0, None, verify, &(0..n).collect::<Vec<_>>())
}
fn cmp_delivery(suite: &str, contract: &str, inp: &str, got: std::result::Result<Vec<std::result::Result<Option<[u8; 32]>, String>>, String>, want: &[[u8; 32]]) {
    match got {
        Err(m) => fail(suite, contract, inp, &m, "all blocks delivered"),
        Ok(v) => {
            let g: Vec<String> = v.iter().map(|r| match r { Ok(Some(h)) => short(h), Ok(None) => "none".into(), Err(e) => format!("ERR {}", e) }).collect();
            let w: Vec<String> = want.iter().map(short).collect();
            check(g == w, suite, contract, inp, &format!("{:?}", g), &format!("{:?}", w));
        }
    }
}

/// C03 (bounded: 6-block chain, a catalogue of physical layouts): the block delivered for a height is the one
/// stored at (file, offset) of its index record -- permutations across files, gaps and garbage, huge file
/// numbers, name padding, unindexed blocks, foreign index keys, foreign files
#[test]
fn c03_layout_independence() {
    let suite = "c03_layout_independence";
    let chain = make_chain(6, &mut |_| vec![]);
    let want = hashes(&chain);
    let mut cases = 0;
    let mut rng = Rng::new(3);
    // (a) reverse physical order inside one file, with garbage between blocks
    { cases += 1; let mut d = DataDir::new();
      for h in (0..6u64).rev() { let gl = rng.below(40) as usize; let g = rng.bytes(gl); let off = d.put_block(0, 0xd9b4bef9, &chain[h as usize].ser(), &g);
          // (blocks with data but without undo data -- every genesis block, a freshly connected tip -- have no undo position)
          d.recs.push(IndexRec { hash: chain[h as usize].hash(), version: 1, height: h, status: if h % 2 == 0 { 5 | 8 } else { ST_ACTIVE }, ntx: 1, file: 0, offset: off, header: None }); }
      d.write(); cmp_delivery(suite, "C03:block_comes_from_file_and_offset_of_its_index_record", "reverse order + garbage gaps, statuses 13 (no undo data) and 29", fetch_all(&d, "bitcoin", 6, false), &want); }
    // (b) interleaved over three files with large numbers and different name padding
    { cases += 1; let mut d = DataDir::new();
      let files = [3u64, 70000, 123456789];
      for h in 0..6u64 { d.add(files[(h % 3) as usize], h, &chain[h as usize], ST_ACTIVE); }
      d.set_file_name(3, "blk3.dat"); d.set_file_name(70000, "blk70000.dat"); d.set_file_name(123456789, "blk000123456789.dat");
      d.write(); cmp_delivery(suite, "C03:block_comes_from_file_and_offset_of_its_index_record", "3 files (3, 70000, 123456789), mixed name padding", fetch_all(&d, "bitcoin", 6, false), &want); }
    // (b') heights are not dense: the only record of height g carries no block data (header-only), heights above it do --
    // the record of a height is looked up by height, never by position
    for g in [1u64, 3, 4] { cases += 1; let mut d = DataDir::new();
      for h in 0..6u64 { d.add((h % 2) as u64, h, &chain[h as usize], ST_ACTIVE); }
      for r in d.recs.iter_mut() { if r.height == g { r.status = ST_HEADER_ONLY; r.ntx = 0; } }
      d.write();
      let inp = format!("2 files, height {} header-only, heights above it with data", g);
      match fetch(d.path(), "bitcoin", 0, None, false, &[0, 1, 2, 3, 4, 5]) {
          Err(m) => fail(suite, "C03:block_comes_from_file_and_offset_of_its_index_record", &inp, &m, "index loads"),
          Ok(v) => { let g_: Vec<String> = v.iter().map(|r| match r { Ok(Some(h)) => short(h), Ok(None) => "none".into(), Err(e) => format!("ERR {}", e) }).collect();
              let w: Vec<String> = (0..6u64).map(|h| if h == g { "none".to_string() } else { short(&want[h as usize]) }).collect();
              check(g_ == w, suite, "C03:block_comes_from_file_and_offset_of_its_index_record", &inp, &format!("{:?}", g_), &format!("{:?}", w)); } } }
    // (c) unindexed foreign blocks in between, foreign index keys, foreign files in the directory
    { cases += 1; let mut d = DataDir::new();
      let foreign = make_chain(3, &mut |_| vec![TxSpec::new(vec![TxIn::new([7; 32], 0, vec![1, 2, 3])], vec![TxOut::new(1, vec![0x51])])]);
      for h in 0..6u64 { d.put_block((h % 2) as u64, 0xd9b4bef9, &foreign[(h % 3) as usize].ser(), &[]); d.add((h % 2) as u64, h, &chain[h as usize], ST_ACTIVE); }
      // Core's file-info records ('f' + LE32 file number -> nBlocks, nSize, nUndoSize, nHeightFirst, nHeightLast, nTimeFirst, nTimeLast
      // as VarInts) -- well-formed, but with heights that say nothing about the blocks the index places in the files
      for f in 0..2u32 { let mut k = b"f".to_vec(); k.extend_from_slice(&f.to_le_bytes());
          let mut v = Vec::new(); for x in [2u64, 1000, 0, 0, 1, 1_300_000_000, 1_300_000_600] { v.extend(core_varint(x)); } d.extra_kv.push((k, v)); }
      d.extra_kv.push((b"f\x07\x00\x00\x00".to_vec(), vec![1, 2, 3])); d.extra_kv.push((b"l".to_vec(), vec![0, 0, 0, 1]));
      d.extra_kv.push((b"F\x04txindex".to_vec(), vec![1])); d.extra_kv.push((b"R".to_vec(), vec![0]));
      d.extra_kv.push((b"a".to_vec(), vec![9; 40])); d.extra_kv.push((b"c".to_vec(), vec![9; 40]));
      d.write();
      for n in ["notes.txt", "blk.dat", "xblk00000.dat", "00007.dat", "blk00000.dat.bak", "rev00000.dat", "blkblk1.dat", "blk00001.dat.dat"] {
          std::fs::write(d.path().join(n), foreign[0].ser()).unwrap();
      }
      { let mut rec = 0xd9b4bef9u32.to_le_bytes().to_vec(); let raw = foreign[1].ser(); rec.extend_from_slice(&(raw.len() as u32).to_le_bytes()); rec.extend_from_slice(&raw);
        std::fs::write(d.path().join("blk00007.dat"), &rec).unwrap(); std::fs::write(d.path().join("blk12345.dat"), &rec).unwrap(); }   // well-formed blk files no record names
      std::fs::create_dir(d.path().join("blk99999.dat")).unwrap();                                         // a directory with a blk name
      let _ = std::os::unix::fs::symlink(d.path().join("gone-target"), d.path().join("stale-link"));        // dangling symlink
      let _ = std::os::unix::fs::symlink(d.path().join("notes.txt"), d.path().join("link-to-notes"));      // healthy symlink to a foreign file
      cmp_delivery(suite, "C03:foreign_keys_and_files_are_ignored", "unindexed blocks, keys f/l/F/R/a/c, foreign files, blk00007.dat / blk12345.dat named by no record, a directory named blk99999.dat, dangling and healthy symlinks", fetch_all(&d, "bitcoin", 6, false), &want); }
    // (d) wide varints: file numbers / offsets / heights that need 2..5 varint bytes (heights up to millions)
    { cases += 1; let mut d = DataDir::new();
      let base_h = 3_000_000u64;
      for h in 0..6u64 { let g = vec![0u8; (h * 40_000) as usize]; let off = d.put_block(16512 + h, 0xd9b4bef9, &chain[h as usize].ser(), &g);
          d.recs.push(IndexRec { hash: chain[h as usize].hash(), version: 0x2000_0000, height: base_h + h, status: ST_ACTIVE, ntx: 1, file: 16512 + h, offset: off, header: None }); }
      d.write();
      let got = fetch(d.path(), "bitcoin", 0, None, false, &(base_h..base_h + 6).collect::<Vec<_>>());
      cmp_delivery(suite, "C03:core_varint_decoded_exactly", "heights 3000000.., files 16512.., offsets up to 200008", got, &want);
      // the same directory walked the way the driver does: an index that does not start at height 0 (pruned node / copied
      // tail), --start inside it; the tip is the highest recorded height, not the number of records
      cases += 1;
      let ev = drive(d.path(), "bitcoin", base_h + 1, None, false);
      let wantev: Vec<String> = std::iter::once(format!("S{}", base_h + 1)).chain((1..6u64).map(|i| format!("B{}:{}", base_h + i, short(&want[i as usize])))).chain(std::iter::once(format!("C{}", base_h + 5))).collect();
      let gotev: Vec<String> = match &ev { Ok(v) => v.iter().map(|e| match e { Event::Start(h) => format!("S{}", h), Event::Block(h, x) => format!("B{}:{}", h, short(x)), Event::Complete(h) => format!("C{}", h) }).collect(), Err(m) => vec![format!("ERR {}", m)] };
      check(gotev == wantev, suite, "C03:block_comes_from_file_and_offset_of_its_index_record", "index holding only heights 3000000..=3000005, --start 3000001", &format!("{:?}", gotev), &format!("{:?}", wantev)); }
    // (f) consecutive heights alternate between two files, and each block sits at exactly the offset where the previous
    //     height's block ENDS in the other file ("the next record") -- the position inside one file says nothing about another
    { cases += 1; let mut d = DataDir::new();
      let foreign = make_chain(2, &mut |_| vec![TxSpec::new(vec![TxIn::new([8; 32], 0, vec![4, 5, 6])], vec![TxOut::new(2, vec![0x52])])]);
      let mut next_off = 8u64;
      let mut lens = [0u64; 2];
      for h in 0..6u64 { let f = (h % 2) as usize; let raw = chain[h as usize].ser();
          // pad the file with well-formed foreign records and a few bytes so that the block's data offset is next_off
          let mut gap: Vec<u8> = Vec::new();
          while lens[f] + gap.len() as u64 + 8 < next_off { let fr = foreign[(gap.len() % 2) as usize].ser(); let room = next_off - 8 - lens[f] - gap.len() as u64;
              if room >= fr.len() as u64 + 8 { gap.extend_from_slice(&0xd9b4bef9u32.to_le_bytes()); gap.extend_from_slice(&(fr.len() as u32).to_le_bytes()); gap.extend_from_slice(&fr); } else { gap.extend(vec![0u8; room as usize]); } }
          let off = d.put_block(f as u64, 0xd9b4bef9, &raw, &gap);
          lens[f] = off + raw.len() as u64;
          d.recs.push(IndexRec { hash: chain[h as usize].hash(), version: 1, height: h, status: ST_ACTIVE, ntx: 1, file: f as u64, offset: off, header: None });
          next_off = off + raw.len() as u64 + 8; }
      d.write(); cmp_delivery(suite, "C03:block_comes_from_file_and_offset_of_its_index_record", "heights alternate between two files, each block at the offset where the previous one ends in the other file", fetch_all(&d, "bitcoin", 6, false), &want); }
    // (e) the layouts (a) and (b) again in an XOR-obfuscated directory (Core 28+): offsets of every residue mod the key length
    for key in [vec![0x5au8, 0x01, 0xc3, 0x7e, 0x99, 0x10, 0xe4, 0x2b], vec![0xa1, 0x3c, 0x5e, 0x77, 0x09, 0xd2, 0x4b, 0xa1]] {
      cases += 1; let mut d = DataDir::new();
      for h in (0..6u64).rev() { let gl = 1 + rng.below(9) as usize; let g = rng.bytes(gl); let off = d.put_block(h % 2, 0xd9b4bef9, &chain[h as usize].ser(), &g);
          d.recs.push(IndexRec { hash: chain[h as usize].hash(), version: 1, height: h, status: ST_ACTIVE, ntx: 1, file: h % 2, offset: off, header: None }); }
      d.xor_key = Some(key.clone());
      d.write(); cmp_delivery(suite, "C03:block_comes_from_file_and_offset_of_its_index_record", &format!("reverse order over two files with 1..9 byte gaps, xor.dat = {}", hex(&key)), fetch_all(&d, "bitcoin", 6, false), &want); }
    finish(suite, cases);
}

/// C03 (one case, sparse file): a data offset beyond 4 GiB
#[test]
fn c03_offset_beyond_4gib() {
    let suite = "c03_offset_beyond_4gib";
    let chain = make_chain(3, &mut |_| vec![]);
    let mut d = DataDir::new();
    d.add(0, 0, &chain[0], ST_ACTIVE);
    d.add(0, 2, &chain[2], ST_ACTIVE);
    let far: u64 = (1u64 << 32) + 8;
    d.recs.push(IndexRec { hash: chain[1].hash(), version: 1, height: 1, status: ST_ACTIVE, ntx: 1, file: 0, offset: far, header: None });
    d.write();
    let raw = chain[1].ser();
    let mut rec = 0xd9b4bef9u32.to_le_bytes().to_vec(); rec.extend_from_slice(&(raw.len() as u32).to_le_bytes()); rec.extend_from_slice(&raw);
    sparse_write(&d.path().join("blk00000.dat"), far - 8, &rec);
    cmp_delivery(suite, "C03:block_comes_from_file_and_offset_of_its_index_record", "height 1 stored at offset 2^32+8 of a sparse file", fetch_all(&d, "bitcoin", 3, false), &hashes(&chain));
    finish(suite, 1);
}

/// C04 (bounded catalogue): header-only records and failed/stale records WITHOUT data never displace the active chain;
/// a stale sibling WITH data is the recorded known finding
#[test]
fn c04_competitor_records() {
    let suite = "c04_competitor_records";
    let chain = make_chain(5, &mut |_| vec![]);
    let want = hashes(&chain);
    let mut cases = 0;
    // header-only records at, below and beyond the tip, with hashes sorting before and after the active ones
    { cases += 1; let mut d = simple_dir(&chain);
      // hashes sorting before (00..) and after (ff..) every active hash; statuses: header-only, failed without data
      for (i, h) in [1u64, 3, 4, 5, 9].iter().enumerate() { for fill in [0x00u8, 0xff] { for (j, st) in [ST_HEADER_ONLY, 1, 34, 66, 33, 98, 258].iter().enumerate() {
          let mut hash = [fill; 32]; hash[31] = (i * 8 + j) as u8;
          d.recs.push(IndexRec { hash, version: 0x2000_0800, height: *h, status: *st, ntx: 0, file: 0, offset: 0, header: None }); } } }
      d.write();
      cmp_delivery(suite, "C04:header_only_records_never_delivered", "header-only / failed-without-data records (status 2,1,34,66,33,98 and 258 = VALID_TREE|ASSUMED_VALID) at heights 1,3,4,5,9, hashes sorting before and after", fetch_all(&d, "bitcoin", 5, false), &want);
      let got = drive(d.path(), "bitcoin", 0, None, false);
      let n = got.as_ref().map(|v| v.iter().filter(|e| matches!(e, Event::Block(..))).count()).unwrap_or(0);
      cases += 1;
      check(n == 5, suite, "C04:header_only_records_beyond_tip_do_not_extend_the_run", "header-only record at height 9 beyond tip 4", &format!("{} blocks delivered ({:?})", n, got.as_ref().err()), "5 blocks"); }
    // a gap in the downloaded blocks (headers-first sync stopped midway): the ONLY record of height g is header-only while
    // the heights above it have data -- no other height's record may stand in for g, and the driver stops before the gap
    for g in [1u64, 2, 3] { for core_shaped in [false, true] { cases += 1; let mut d = simple_dir(&chain);
      for r in d.recs.iter_mut() { if r.height == g { r.status = ST_HEADER_ONLY; r.ntx = 0; if core_shaped { r.header = Some([0x11; 80]); } } }
      d.write();
      let inp = format!("heights 0..=4, height {} header-only{} (a gap below the tip)", g, if core_shaped { " (Core-shaped record)" } else { "" });
      match fetch(d.path(), "bitcoin", 0, None, false, &[0, 1, 2, 3, 4]) {
          Err(m) => fail(suite, "C04:gap_height_is_never_filled_by_another_record", &inp, &m, "index loads"),
          Ok(v) => { let g_: Vec<String> = v.iter().map(|r| match r { Ok(Some(h)) => short(h), Ok(None) => "none".into(), Err(e) => format!("ERR {}", e) }).collect();
              let w: Vec<String> = (0..5u64).map(|h| if h == g { "none".to_string() } else { short(&want[h as usize]) }).collect();
              check(g_ == w, suite, "C04:gap_height_is_never_filled_by_another_record", &inp, &format!("{:?}", g_), &format!("{:?}", w)); } }
      let got = drive(d.path(), "bitcoin", 0, None, false);
      let blocks: Vec<(u64, String)> = got.as_ref().map(|v| v.iter().filter_map(|e| if let Event::Block(h, x) = e { Some((*h, short(x))) } else { None }).collect()).unwrap_or_default();
      let wantb: Vec<(u64, String)> = (0..g).map(|h| (h, short(&want[h as usize]))).collect();
      check(got.is_ok() && blocks == wantb, suite, "C04:gap_height_is_never_filled_by_another_record", &format!("{} -- through the driver", inp), &format!("{:?} ({:?})", blocks, got.as_ref().err()), &format!("{:?}", wantb)); } }
    // Core-shaped header-only records (no nFile / nDataPos fields: the stored 80-byte header follows the tx count directly)
    // whose header bytes are anything at all -- version 0xffffffff, a prev-hash of 0xff bytes, all zero, random
    { cases += 1; let mut d = simple_dir(&chain);
      let mut rng = Rng::new(404);
      let mut headers: Vec<[u8; 80]> = vec![[0xff; 80], [0x80; 80], [0u8; 80]];
      for _ in 0..6 { let mut h = [0u8; 80]; h.copy_from_slice(&rng.bytes(80)); headers.push(h); }
      let mut h2 = [0u8; 80]; h2[..4].copy_from_slice(&0x3fff_e000u32.to_le_bytes()); for b in h2[4..36].iter_mut() { *b = 0xee; } headers.push(h2);
      for (i, hd) in headers.iter().enumerate() { for (j, height) in [2u64, 4, 7].iter().enumerate() {
          let mut hash = [if i % 2 == 0 { 0x00 } else { 0xff }; 32]; hash[30] = i as u8; hash[31] = j as u8;
          d.recs.push(IndexRec { hash, version: 0x2000_0000, height: *height, status: ST_HEADER_ONLY, ntx: 0, file: 0, offset: 0, header: Some(*hd) }); } }
      d.write();
      let r = std::panic::catch_unwind(std::panic::AssertUnwindSafe(|| fetch_all(&d, "bitcoin", 5, false)));
      match r {
          Ok(got) => cmp_delivery(suite, "C04:header_only_records_never_delivered", "Core-shaped header-only records at heights 2, 4, 7 with arbitrary stored header bytes", got, &want),
          Err(_) => fail(suite, "C04:header_only_records_never_delivered", "Core-shaped header-only records at heights 2, 4, 7 with arbitrary stored header bytes (0xff.., 0x80.., random)", "panic while loading the block index", "the active chain delivered"),
      } }
    // stale sibling with data whose hash sorts AFTER the active block's hash (known finding) and BEFORE it; never-connected
    // (validity 3) and once-active reorged-out (same status as the active block)
    for later in [false, true] { for status in [3u64 | 8, ST_ACTIVE] {
        cases += 1;
        let mut d = simple_dir(&chain);
        let mut stale = BlockSpec::new(chain[1].hash(), 777, vec![TxSpec::new(vec![TxIn::coinbase(777)], vec![TxOut::new(1, vec![0x51])])]);
        // grind the nonce until the stale hash sorts as wanted relative to the active block 2
        loop { let s = stale.hash(); if (s > chain[2].hash()) == later { break; } stale.nonce += 1; }
        let off = d.put_block(0, 0xd9b4bef9, &stale.ser(), &[]);
        d.recs.push(IndexRec { hash: stale.hash(), version: 1, height: 2, status, ntx: 1, file: 0, offset: off, header: None });
        d.write();
        let c = if later { "C04:active_chain_only/stale_sibling_with_data_sorting_later" } else { "C04:active_chain_only/stale_sibling_with_data_sorting_earlier" };
        cmp_delivery(suite, c, &format!("stale sibling with data at height 2 (status {}), hash sorts {} the active one", status, if later { "after" } else { "before" }), fetch_all(&d, "bitcoin", 5, false), &want);
        if later {
            // with --verify the non-linking sequence must never be delivered silently: the run fails at height 2 or 3
            cases += 1;
            let r = fetch(d.path(), "bitcoin", 1, None, true, &[1, 2, 3]);
            let silent = matches!(&r, Ok(v) if v.iter().all(|x| matches!(x, Ok(Some(_)))));
            check(!silent, suite, "C04:verify_never_delivers_a_non_linking_sequence", &format!("stale sibling with data at height 2 (status {}) sorting after the active one, --verify", status), "heights 1..3 delivered without error", "an error at height 2 or 3");
        }
    } }
    // several competitors at one height: two never-connected stale siblings with data whose hashes both sort BEFORE the active
    // block's hash (the order the program handles), at two different heights
    { cases += 1; let mut d = simple_dir(&chain);
      for (height, tag) in [(2u64, 800u32), (3, 900)] { for k in 0..2u32 {
          let mut stale = BlockSpec::new(chain[height as usize - 1].hash(), tag + k, vec![TxSpec::new(vec![TxIn::coinbase(tag + k)], vec![TxOut::new(1, vec![0x51])])]);
          loop { if stale.hash() < chain[height as usize].hash() { break; } stale.nonce += 1; }
          let off = d.put_block(0, 0xd9b4bef9, &stale.ser(), &[]);
          d.recs.push(IndexRec { hash: stale.hash(), version: 1, height, status: 3 | 8, ntx: 1, file: 0, offset: off, header: None }); } }
      d.write();
      cmp_delivery(suite, "C04:active_chain_only/stale_sibling_with_data_sorting_earlier", "two stale siblings with data at each of heights 2 and 3 (status 11), all hashes sorting before the active one", fetch_all(&d, "bitcoin", 5, false), &want);
      let got = drive(d.path(), "bitcoin", 0, None, false);
      let n = got.as_ref().map(|v| v.iter().filter(|e| matches!(e, Event::Block(..))).count()).unwrap_or(0);
      cases += 1;
      check(n == 5, suite, "C04:active_chain_only/stale_sibling_with_data_sorting_earlier", "two stale siblings per height: whole run", &format!("{} blocks delivered ({:?})", n, got.as_ref().err()), "5 blocks"); }
    finish(suite, cases);
}

fn chain_with_txcounts(counts: &[usize]) -> Vec<BlockSpec> {
    let mut k = 0u32;
    make_chain(counts.len() as u64, &mut |h| {
        (1..counts[h as usize]).map(|_| { k += 1; let mut id = [0u8; 32]; id[..4].copy_from_slice(&k.to_le_bytes());
            TxSpec::new(vec![TxIn::new(id, 0, vec![0x51])], vec![TxOut::new(k as u64, vec![0x6a, 0x01, k as u8])]) }).collect()
    })
}
/// C09 (bounded: the listed tx counts): --verify accepts consistent chains for every merkle tree shape
#[test]
fn c09_verify_accepts_consistent_chains() {
    let suite = "c09_verify_accepts_consistent_chains";
    let thorough = std::env::var("VERIF_TIER").map(|t| t == "thorough").unwrap_or(false);
    let mut counts: Vec<usize> = (1..=17).collect();
    counts.extend([31, 32, 33, 63, 64, 65, 100, 127, 128, 129, 255, 256, 257, 258, 259, 260, 263, 264, 265, 273, 280, 300]);
    if thorough { counts.extend([511, 512, 513, 520, 600, 696, 700, 1000, 1023, 1024, 1025]); }
    // genesis must hash to the coin's genesis: use verification from height 1 on (index keeps height 0)
    let mut chain = chain_with_txcounts(&counts);
    // script lengths and in/out counts on both sides of every CompactSize width boundary: the txid (merkle leaf) must be the
    // hash of the bytes on disk
    for (i, l) in [252usize, 253, 254, 255, 256, 520, 0xffff, 0x10000].iter().enumerate() {
        let b = &mut chain[2 + i];
        b.txs.push(TxSpec::new(vec![TxIn::new([0x70 + i as u8; 32], 1, vec![0x51; *l])], vec![TxOut::new(3, vec![0x6a; *l])]));
        if *l <= 256 { b.txs.push(TxSpec::new((0..*l).map(|k| TxIn::new([0x60 + i as u8; 32], k as u32, vec![])).collect(), (0..*l).map(|k| TxOut::new(k as u64, vec![0x51])).collect())); }
    }
    relink(&mut chain);
    let counts: Vec<usize> = chain.iter().map(|b| b.txs.len()).collect();
    let d = simple_dir(&chain); d.write();
    let hs: Vec<u64> = (1..chain.len() as u64).collect();
    let mut cases = 0;
    match fetch(d.path(), "bitcoin", 1, None, true, &hs) {
        Err(m) => fail(suite, "C09:verify_accepts_consistent_chain", "chain of varying tx counts", &m, "Ok"),
        Ok(v) => for (i, r) in v.iter().enumerate() { cases += 1;
            check(matches!(r, Ok(Some(_))), suite, "C09:verify_accepts_consistent_block", &format!("height {} with {} txs", i + 1, counts[i + 1]), &format!("{:?}", r.as_ref().map(|x| x.map(|h| short(&h)))), "Ok"); }
    }
    finish(suite, cases);
}
/// C09 (bounded: single-bit flips at sampled positions; every start offset of a 5-block chain): --verify rejects
/// a changed tx byte, merkle field or prev field, a foreign block, and checks the first processed block's prev-hash
#[test]
fn c09_verify_rejects_inconsistent_blocks() {
    let suite = "c09_verify_rejects_inconsistent_blocks";
    let counts = [1usize, 2, 3, 5, 4];
    let chain = chain_with_txcounts(&counts);
    let mut cases = 0;
    let mut rng = Rng::new(9);
    for h in 1..5usize {
        let raw = chain[h].ser();
        // flip positions: in prev field, merkle field, and tx data
        let mut positions: Vec<usize> = vec![4 + (rng.below(32) as usize), 36 + (rng.below(32) as usize)];
        for _ in 0..3 { positions.push(81 + rng.below((raw.len() - 81) as u64) as usize); }
        for pos in positions {
            cases += 1;
            let bit = 1u8 << rng.below(8);
            let mut d = DataDir::new();
            for (i, b) in chain.iter().enumerate() {
                if i == h { let mut m = raw.clone(); m[pos] ^= bit; let off = d.put_block(0, 0xd9b4bef9, &m, &[]);
                    d.recs.push(IndexRec { hash: b.hash(), version: 1, height: i as u64, status: ST_ACTIVE, ntx: 1, file: 0, offset: off, header: None }); }
                else { d.add(0, i as u64, b, ST_ACTIVE); }
            }
            d.write();
            let what = if pos < 36 { "prev-hash field" } else if pos < 68 { "merkle-root field" } else { "transaction data" };
            // start at h (first processed block) and at 1: both must reject at height h; txcount byte flips are a parse matter, skip pos 80
            for s in [1u64, h as u64] {
                let r = fetch(d.path(), "bitcoin", s, None, true, &[h as u64]);
                let rejected = match &r { Ok(v) => v[0].is_err(), Err(_) => true };
                check(rejected, suite, "C09:verify_rejects_changed_block", &format!("height {} bit flip in {} (byte {}), --start {}", h, what, pos, s), &format!("{:?}", r.as_ref().map(|v| v[0].as_ref().map(|x| x.map(|y| short(&y))))), "Err");
            }
        }
    }
    // a block swapped for the child of a STALE sibling: the index keeps the active block at height 2 (the stale one sorts earlier),
    // the position recorded for height 3 holds a well-formed block whose prev-hash names the stale sibling
    { cases += 1;
      let mut stale = BlockSpec::new(chain[1].hash(), 4242, vec![TxSpec::new(vec![TxIn::coinbase(4242)], vec![TxOut::new(1, vec![0x51])])]);
      loop { if stale.hash() < chain[2].hash() { break; } stale.nonce += 1; }
      let child = BlockSpec::new(stale.hash(), 4343, vec![TxSpec::new(vec![TxIn::coinbase(4343)], vec![TxOut::new(2, vec![0x51])])]);
      let mut d = DataDir::new();
      for (i, b) in chain.iter().enumerate() {
          if i == 3 { let off = d.put_block(0, 0xd9b4bef9, &child.ser(), &[]);
              d.recs.push(IndexRec { hash: b.hash(), version: 1, height: 3, status: ST_ACTIVE, ntx: 1, file: 0, offset: off, header: None }); }
          else { d.add(0, i as u64, b, ST_ACTIVE); } }
      let off = d.put_block(0, 0xd9b4bef9, &stale.ser(), &[]);
      d.recs.push(IndexRec { hash: stale.hash(), version: 1, height: 2, status: 3 | 8, ntx: 1, file: 0, offset: off, header: None });
      d.write();
      let r = fetch(d.path(), "bitcoin", 1, None, true, &[1, 2, 3]);
      let rejected = match &r { Ok(v) => v[2].is_err(), Err(_) => true };
      check(rejected, suite, "C09:verify_rejects_foreign_block", "height 3 replaced by a child of a stale sibling of height 2 (the sibling is indexed, sorts before the active block)", &format!("{:?}", r.as_ref().map(|v| v.iter().map(|x| x.is_ok()).collect::<Vec<_>>())), "Err at height 3"); }
    // a length field of the LAST block of the last file blown up: the parse runs past the end of the file -- the run
    // must fail at that height (an error, not "no such block")
    for (what, patch_at) in [("input count of the coinbase", 85usize), ("script length of the coinbase input", 122)] {
        cases += 1;
        let mut d = DataDir::new();
        for (i, b) in chain.iter().enumerate() {
            if i == 4 { let mut m = b.ser(); m[patch_at] = 0xfc; let off = d.put_block(0, 0xd9b4bef9, &m, &[]);
                d.recs.push(IndexRec { hash: b.hash(), version: 1, height: 4, status: ST_ACTIVE, ntx: 1, file: 0, offset: off, header: None }); }
            else { d.add(0, i as u64, b, ST_ACTIVE); }
        }
        d.write();
        let r = fetch(d.path(), "bitcoin", 1, None, true, &[4]);
        let rejected = match &r { Ok(v) => v[0].is_err(), Err(_) => true };
        check(rejected, suite, "C09:verify_rejects_changed_block", &format!("height 4 (last block of the file): {} set to 0xfc, parse runs past EOF", what), &format!("{:?}", r.as_ref().map(|v| v[0].as_ref().map(|x| x.map(|y| short(&y))))), "Err");
    }
    // a foreign (self-consistent) block swapped in at height 3: prev-hash link must fail, also as first processed block
    { let foreign = chain_with_txcounts(&[1, 1, 1, 2]);
      for s in [0u64, 3] { cases += 1;
        let mut d = DataDir::new();
        for (i, b) in chain.iter().enumerate() { if i == 3 { let off = d.put_block(0, 0xd9b4bef9, &foreign[3].ser(), &[]);
                d.recs.push(IndexRec { hash: foreign[3].hash(), version: 1, height: 3, status: ST_ACTIVE, ntx: 2, file: 0, offset: off, header: None }); } else { d.add(0, i as u64, b, ST_ACTIVE); } }
        d.write();
        let r = fetch(d.path(), "bitcoin", s.max(1), None, true, &[3]);
        let rejected = match &r { Ok(v) => v[0].is_err(), Err(_) => true };
        check(rejected, suite, "C09:verify_rejects_foreign_block", &format!("self-consistent foreign block at height 3, --start {}", s.max(1)), &format!("{:?}", r.as_ref().map(|v| v[0].is_ok())), "Err");
      } }
    // genesis hash: a chain whose block 0 is not the coin's genesis must fail at height 0, for all 8 coins
    for coin in ["bitcoin", "testnet3", "namecoin", "litecoin", "dogecoin", "myriadcoin", "unobtanium", "noteblockchain"] {
        cases += 1;
        let d = simple_dir(&chain[..2]); d.write();
        let r = fetch(d.path(), coin, 0, None, true, &[0]);
        let rejected = match &r { Ok(v) => v[0].is_err(), Err(_) => true };
        check(rejected, suite, "C09:block_0_must_hash_to_the_published_genesis", coin, &format!("{:?}", r.as_ref().map(|v| v[0].is_ok())), "Err");
    }
    finish(suite, cases);
}

/// C09 (the real genesis blocks): block 0 of Bitcoin verifies against the published genesis hash
#[test]
fn c09_bitcoin_genesis_accepted() {
    let suite = "c09_bitcoin_genesis_accepted";
    let raw = crate::common::utils::hex_to_vec("0100000000000000000000000000000000000000000000000000000000000000000000003ba3edfd7a7b12b27ac72c3e67768f617fc81bc3888a51323a9fb8aa4b1e5e4a29ab5f49ffff001d1dac2b7c0101000000010000000000000000000000000000000000000000000000000000000000000000ffffffff4d04ffff001d0104455468652054696d65732030332f4a616e2f32303039204368616e63656c6c6f72206f6e206272696e6b206f66207365636f6e64206261696c6f757420666f722062616e6b73ffffffff0100f2052a01000000434104678afdb0fe5548271967f1a67130b7105cd6a828e03909a67962e0ea1f61deb649f6bc3f4cef38c4f35504e51ec112de5c384df7ba0b8d578a4c702b6bf11d5fac00000000");
    let mut d = DataDir::new();
    let off = d.put_block(0, 0xd9b4bef9, &raw, &[]);
    d.recs.push(IndexRec { hash: sha256d_of(&raw[..80]), version: 1, height: 0, status: ST_ACTIVE, ntx: 1, file: 0, offset: off, header: None });
    d.write();
    let r = fetch(d.path(), "bitcoin", 0, None, true, &[0]);
    check(matches!(&r, Ok(v) if matches!(v[0], Ok(Some(_)))), suite, "C09:published_genesis_accepted", "bitcoin genesis block", &format!("{:?}", r.as_ref().map(|v| v[0].is_ok())), "Ok");
    // the genesis block is a processed block like any other: a changed transaction byte under the intact (published) header
    let mut cases = 1;
    for pos in [90usize, 125, 140, 200, 210, 281] {
        cases += 1;
        let mut m = raw.clone(); m[pos] ^= 0x04;
        let mut d = DataDir::new();
        let off = d.put_block(0, 0xd9b4bef9, &m, &[]);
        d.recs.push(IndexRec { hash: sha256d_of(&raw[..80]), version: 1, height: 0, status: 5 | 8, ntx: 1, file: 0, offset: off, header: None });
        d.write();
        let r = fetch(d.path(), "bitcoin", 0, None, true, &[0]);
        let rejected = match &r { Ok(v) => v[0].is_err(), Err(_) => true };
        check(rejected, suite, "C09:verify_rejects_changed_block", &format!("bitcoin genesis with bit 2 of byte {} (coinbase transaction) flipped, header intact, --verify", pos), "accepted", "Err at height 0");
    }
    // a copy of the (real, published) genesis block swapped in ABOVE height 0: self-consistent, prev-hash all zero, hashes to the
    // published genesis hash -- and still a foreign block at that height
    { let mut b1 = BlockSpec::new(sha256d_of(&raw[..80]), 1, vec![TxSpec::new(vec![TxIn::coinbase(1)], vec![TxOut::new(1, vec![0x51])])]);
      b1.merkle = None;
      let b2 = BlockSpec::new(b1.hash(), 2, vec![TxSpec::new(vec![TxIn::coinbase(2)], vec![TxOut::new(2, vec![0x51])])]);
      let b3 = BlockSpec::new(b2.hash(), 3, vec![TxSpec::new(vec![TxIn::coinbase(3)], vec![TxOut::new(3, vec![0x51])])]);
      for at in [1u64, 2, 3] { for start in [0u64, at] {
          cases += 1;
          let mut d = DataDir::new();
          let off = d.put_block(0, 0xd9b4bef9, &raw, &[]);
          d.recs.push(IndexRec { hash: sha256d_of(&raw[..80]), version: 1, height: 0, status: ST_ACTIVE, ntx: 1, file: 0, offset: off, header: None });
          for (h, b) in [(1u64, &b1), (2, &b2), (3, &b3)] {
              if h == at { let off = d.put_block(0, 0xd9b4bef9, &raw, &[]);
                  d.recs.push(IndexRec { hash: b.hash(), version: 1, height: h, status: ST_ACTIVE, ntx: 1, file: 0, offset: off, header: None }); }
              else { d.add(0, h, b, ST_ACTIVE); } }
          d.write();
          let r = fetch(d.path(), "bitcoin", start, None, true, &[at]);
          let rejected = match &r { Ok(v) => v[0].is_err(), Err(_) => true };
          check(rejected, suite, "C09:verify_rejects_foreign_block", &format!("bitcoin: the bytes at height {}'s recorded position replaced by a copy of the genesis block, --verify --start {}", at, start), "accepted", &format!("Err at height {}", at));
      } }
      // (and the untouched chain genesis <- b1 <- b2 <- b3 is accepted)
      { cases += 1; let mut d = DataDir::new();
        let off = d.put_block(0, 0xd9b4bef9, &raw, &[]);
        d.recs.push(IndexRec { hash: sha256d_of(&raw[..80]), version: 1, height: 0, status: ST_ACTIVE, ntx: 1, file: 0, offset: off, header: None });
        for (h, b) in [(1u64, &b1), (2, &b2), (3, &b3)] { d.add(0, h, b, ST_ACTIVE); }
        d.write();
        let r = fetch(d.path(), "bitcoin", 0, None, true, &[0, 1, 2, 3]);
        check(matches!(&r, Ok(v) if v.iter().all(|x| matches!(x, Ok(Some(_))))), suite, "C09:verify_accepts_consistent_block", "bitcoin genesis followed by three consistent blocks, --verify", &format!("{:?}", r.as_ref().map(|v| v.iter().map(|x| x.is_ok()).collect::<Vec<_>>())), "all accepted"); }
    }
    finish(suite, cases);
}

/// C11 (bounded: keys of length 1..=9, 16, 64, all-zero, near-periodic keys, keys made of printable characters; two layouts;
/// one block with 40 000- and 33 000-byte fields): an XOR-obfuscated directory delivers the same blocks as the plaintext one --
/// block hashes and every transaction id
#[test]
fn c11_xor_directories() {
    let suite = "c11_xor_directories";
    let big_tx = TxSpec::new(vec![TxIn::new([9; 32], 1, vec![0xaa; 40_000])], vec![TxOut::new(5, vec![0x51; 33_000])]);   // block larger than the 32 KiB buffer
    let chain = make_chain(6, &mut |h| if h == 2 { vec![big_tx.clone()] } else { vec![] });
    let want = hashes(&chain);
    let mut rng = Rng::new(11);
    let mut keys: Vec<Vec<u8>> = (1..=9).map(|n| rng.bytes(n)).collect();
    keys.push(rng.bytes(16)); keys.push(rng.bytes(64)); keys.push(vec![0u8; 8]); keys.push(vec![0xff]);
    keys.push(vec![0x5a, 0x5a]); keys.push(vec![0xde, 0xad, 0xbe, 0xef, 0xde, 0xad, 0xbe, 0xef]); keys.push(vec![1, 2, 3]); keys.push(vec![0x11, 0x22, 0x33, 0x44, 0x55, 0x66, 0x77, 0x00]);
    // keys that look periodic without being so (a suffix equals a prefix, the period does not divide the length)
    keys.push(vec![0xa1, 0x3c, 0x5e, 0x77, 0x09, 0xd2, 0x4b, 0xa1]); keys.push(vec![0x5a, 0xc3, 0x5a]); keys.push(vec![0x11, 0x22, 0x33, 0x11, 0x22]);
    keys.push(vec![7, 7, 7, 7, 7, 7, 7, 8]); keys.push(vec![0xab, 0xcd, 0xab, 0xcd, 0xab, 0xcd, 0xab, 0xcd]);
    // keys whose BYTES happen to be printable text: hex digits, decimal digits, whitespace, a newline at the end -- xor.dat is binary
    for k in [&b"deadbeef"[..], b"DEADBEEF", b"00000000", b"12345678", b"0x1f", b"ab", b"a", b"        ", b"key\n", b"\n", b"\r\n\r\n", b"0123456789abcdef", b"\0\0\0\0\0\0\0\x01"] { keys.push(k.to_vec()); }
    let mut cases = 0;
    for k in keys { for layout in 0..2 {
        cases += 1;
        let mut d = DataDir::new();
        if layout == 0 { for h in (0..6u64).rev() { let gl = rng.below(13) as usize; let g = rng.bytes(gl); let off = d.put_block(h % 2, 0xd9b4bef9, &chain[h as usize].ser(), &g);
            d.recs.push(IndexRec { hash: chain[h as usize].hash(), version: 1, height: h, status: ST_ACTIVE, ntx: 1, file: h % 2, offset: off, header: None }); } }
        else { for h in 0..6u64 { d.add(0, h, &chain[h as usize], ST_ACTIVE); } }
        d.xor_key = Some(k.clone());
        d.write();
        cmp_delivery(suite, "C11:xor_directory_reads_like_plaintext", &format!("key {} layout {}", hex(&k), layout), fetch_all(&d, "bitcoin", 6, false), &want);
        // the content under the header too: every transaction id (it covers every byte of every field, also of fields longer
        // than the 32 KiB read buffer)
        match fetch_blocks(d.path(), "bitcoin", 0, 5, false) {
            Err(m) => fail(suite, "C11:xor_directory_reads_like_plaintext", &format!("key {} layout {}", hex(&k), layout), &m, "all blocks parsed"),
            Ok(bs) => for (h, (got, wantb)) in bs.iter().zip(chain.iter()).enumerate() {
                let g: Vec<[u8; 32]> = got.txs.iter().map(|t| t.hash.to_byte_array()).collect();
                let w: Vec<[u8; 32]> = wantb.txs.iter().map(|t| t.txid()).collect();
                check(g == w, suite, "C11:xor_directory_reads_like_plaintext", &format!("key {} layout {} height {}: transaction ids", hex(&k), layout, h), &format!("{:?}", g.iter().map(short).collect::<Vec<_>>()), &format!("{:?}", w.iter().map(short).collect::<Vec<_>>()));
            }
        }
    } }
    finish(suite, cases);
}

/// C17 (bounded: the ten layouts below (incl. file numbers 2^8, 2^16, 2^32 apart) x 4 ranges x {plain, --verify, xor key}): after delivering height h in ascending order,
/// every blk file still open (as seen in /proc/self/fd) holds a block of a height yet to come; a file needed again is
/// transparently reopened and delivers the right block
#[test]
fn c17_open_files_bounded() {
    let suite = "c17_open_files_bounded";
    let mut cases = 0;
    let n = 24u64;
    let chain = make_chain(n, &mut |_| vec![]);
    // layouts: height -> file
    let layouts: Vec<(&str, Box<dyn Fn(u64) -> u64>)> = vec![
        ("disjoint spans of 3", Box::new(|h| h / 3)),
        ("interleaved two files", Box::new(|h| h % 2)),
        ("overlapping spans", Box::new(|h| if h % 5 == 4 { h / 5 + 1 } else { h / 5 })),
        ("file revisited late", Box::new(|h| if h == 20 { 0 } else { h / 4 })),
        ("descending files", Box::new(|h| 40 - h / 3)),
        ("genesis alone in its file", Box::new(|h| if h == 0 { 0 } else { 1 + (h - 1) / 3 })),
        ("every block in its own file", Box::new(|h| h)),
        ("file numbers 256 apart", Box::new(|h| (h / 3) * 256)),
        ("file numbers 65536 apart", Box::new(|h| (h / 3) << 16)),
        ("file numbers 2^32 apart", Box::new(|h| (h / 3) << 32)),
    ];
    for (name, f) in layouts.iter() {
        for (s, e) in [(0u64, None), (5, Some(17)), (7, None), (0, Some(10))] { for mode in 0..4 {
            let verify = mode == 1;
            let mut d = DataDir::new();
            // mode 3: blocks of a file stored in descending height order (higher heights at lower offsets)
            let order: Vec<u64> = if mode == 3 { (0..n).rev().collect() } else { (0..n).collect() };
            for h in order { d.add(f(h), h, &chain[h as usize], ST_ACTIVE); }
            // stale fork blocks with data stored in earlier files, at heights far above the file's own blocks; their hashes
            // sort BEFORE the active block of that height, so the active chain wins the height
            for (k, sh) in [(0u64, 13u64), (1, 19), (2, 23)] {
                let mut stale = BlockSpec::new(chain[(sh - 1) as usize].hash(), 5000 + sh as u32, vec![TxSpec::new(vec![TxIn::coinbase(9)], vec![TxOut::new(1, vec![0x51])])]);
                loop { if stale.hash() < chain[sh as usize].hash() { break; } stale.nonce += 1; }
                let off = d.put_block(f(k), 0xd9b4bef9, &stale.ser(), &[]);
                d.recs.push(IndexRec { hash: stale.hash(), version: 1, height: sh, status: 3 | 8, ntx: 1, file: f(k), offset: off, header: None });
            }
            if mode >= 2 { d.xor_key = Some(vec![0x5a, 0x01, 0xfe, 0x33, 0x90]); }
            d.write();
            let log = Arc::new(Mutex::new(Vec::new()));
            let s_eff = if verify && s == 0 { 1 } else { s };   // block 0 is not the coin's genesis
            let opts = options(d.path(), "bitcoin", s_eff, e, verify, Box::new(Recorder { log }));
            let what = format!("{} range {}..{:?} {}", name, s_eff, e, ["plain", "--verify", "xor", "xor + descending offsets"][mode]);
            let mut st = match ChainStorage::new(&opts) { Ok(x) => x, Err(m) => { fail(suite, "C17:storage_opens", &what, &format!("{}", m), "Ok"); continue; } };
            let last = e.unwrap_or(n - 1).min(n - 1);
            for h in s_eff..=last {
                cases += 1;
                match st.get_block(h) {
                    Ok(Some(b)) => { check(b.header.hash.to_byte_array() == chain[h as usize].hash(), suite, "C17:reopened_file_delivers_the_right_block", &format!("{} height {}", what, h), "other block", "block h"); }
                    Ok(None) => { fail(suite, "C17:reopened_file_delivers_the_right_block", &format!("{} height {}", what, h), "None", "Ok(Some)"); }
                    Err(m) => { fail(suite, "C17:reopened_file_delivers_the_right_block", &format!("{} height {}", what, h), &format!("Err {}", m), "Ok(Some)"); }
                }
                for fname in open_files_in(d.path()) {
                    let fno: u64 = match fname.strip_prefix("blk").and_then(|x| x.strip_suffix(".dat")).and_then(|x| x.parse().ok()) { Some(x) => x, None => continue };
                    let maxh = (0..n).filter(|x| f(*x) == fno).max().unwrap_or(0);
                    check(maxh > h, suite, "C17:open_files_all_hold_a_block_yet_to_come", &format!("{} after height {}", what, h), &format!("{} still open, its highest block is {}", fname, maxh), "closed");
                }
            }
            // files that were closed are needed again (earlier heights re-read, out of order): transparently reopened
            if !verify { for h in [last, s_eff, (s_eff + last) / 2, s_eff] {
                cases += 1;
                let ok = matches!(st.get_block(h), Ok(Some(b)) if b.header.hash.to_byte_array() == chain[h as usize].hash());
                check(ok, suite, "C17:reopened_file_delivers_the_right_block", &format!("{} re-reading height {} after the forward pass", what, h), "error or other block", "block h");
            } }
        } }
    }
    finish(suite, cases);
}

/// C12 (bounded: namecoin and dogecoin, one 7-block chain each whose versions alternate below / at / above the activation
/// version): whether a block carries an AuxPoW section is decided by that block's own version -- blocks before and after an
/// AuxPoW block are decoded by their own version, whatever was read earlier
#[test]
fn c12_mixed_version_chain() {
    let suite = "c12_mixed_version_chain";
    let mut rng = Rng::new(1212);
    let mut cases = 0;
    for (coin, thr) in [("namecoin", 0x10101u32), ("dogecoin", 0x620102u32)] {
        let versions = [1u32, thr, thr - 0x100, thr, 2, thr + 1, 1];
        let mut chain = make_chain(versions.len() as u64, &mut |h| if h % 2 == 0 { vec![] } else {
            vec![TxSpec::new(vec![TxIn::new([h as u8; 32], 0, vec![0x51])], vec![TxOut::new(h, p2pkh_script(&[h as u8; 20])), TxOut::new(h, p2pkh_script(&[3; 20]))])] });   // (the second script is the one the parent coinbases of the AuxPoW sections pay)
        for (b, v) in chain.iter_mut().zip(versions.iter()) {
            b.version = *v;
            if *v >= thr { b.aux = Some(aux_section(&mut rng, *v % 2 == 0, (*v % 5) as usize, 2)); }
        }
        relink(&mut chain);
        let d = simple_dir(&chain); d.write();
        cases += 1;
        let inp = format!("{} versions {:x?}", coin, versions);
        cmp_delivery(suite, "C12:auxpow_decision_depends_on_the_blocks_own_version_only", &inp, fetch_all(&d, coin, versions.len() as u64, false), &hashes(&chain));
        // the same chain with --verify from height 1: a block with an AuxPoW section verifies exactly like one without
        { cases += 1;
          let hs: Vec<u64> = (1..versions.len() as u64).collect();
          let r = fetch(d.path(), coin, 1, None, true, &hs);
          let ok = matches!(&r, Ok(v) if v.iter().all(|x| matches!(x, Ok(Some(_)))));
          check(ok, suite, "C12:derived_outputs_unaffected_by_the_section", &format!("{} --verify --start 1", inp), &format!("{:?}", r.as_ref().map(|v| v.iter().map(|x| x.as_ref().map(|o| o.is_some()).map_err(|e| e.clone())).collect::<Vec<_>>())), "every block accepted"); }
        match fetch_blocks(d.path(), coin, 0, versions.len() as u64 - 1, false) {
            Err(m) => fail(suite, "C12:auxpow_decision_depends_on_the_blocks_own_version_only", &inp, &m, "all blocks parsed"),
            Ok(bs) => for (h, (got, want)) in bs.iter().zip(chain.iter()).enumerate() {
                cases += 1;
                let g: Vec<[u8; 32]> = got.txs.iter().map(|t| t.hash.to_byte_array()).collect();
                let w: Vec<[u8; 32]> = want.txs.iter().map(|t| t.txid()).collect();
                // addresses of the chain's own outputs carry the chain's own version byte, whatever a parent coinbase paid before
                let ver = if coin == "namecoin" { 0x34u8 } else { 0x1e };
                for (t, tw) in got.txs.iter().zip(want.txs.iter()) { for (o, ow) in t.value.outputs.iter().zip(tw.outputs.iter()) {
                    if ow.script.len() == 25 && ow.script[0] == 0x76 { let wa = b58check(ver, &ow.script[3..23]);
                        check(o.script.address.as_deref() == Some(wa.as_str()), suite, "C12:derived_outputs_unaffected_by_the_section", &format!("{} height {} P2PKH output", inp, h), &format!("{:?}", o.script.address), &wa); } } }
                check(g == w && got.aux_pow_extension.is_some() == (versions[h] >= thr), suite, "C12:transaction_list_unaffected_by_the_section",
                      &format!("{} height {} version {:#x}", inp, h, versions[h]), &format!("{} txs, aux={}", g.len(), got.aux_pow_extension.is_some()), &format!("{} txs, aux={}", w.len(), versions[h] >= thr));
            }
        }
    }
    finish(suite, cases);
}

/// C09 (complete over the eight coins): the genesis hash --verify compares height 0 with is the coin's published one.
/// Seven of the eight values were written down independently of the repository (and agree with it); noteblockchain's is
/// pinned from the repository at e72d2b4.
#[test]
fn c09_published_genesis_hashes() {
    use crate::blockchain::parser::types::CoinType;
    let suite = "c09_published_genesis_hashes";
    let table = [
        ("bitcoin", "000000000019d6689c085ae165831e934ff763ae46a2a6c172b3f1b60a8ce26f"),
        ("testnet3", "000000000933ea01ad0ee984209779baaec3ced90fa3f408719526f8d77f4943"),
        ("namecoin", "000000000062b72c5e2ceb45fbc8587e807c155b0da735e6483dfba2f0a9c770"),
        ("litecoin", "12a765e31ffd4059bada1e25190f6e98c99d9714d334efa41a195a7e7e04bfe2"),
        ("dogecoin", "1a91e3dace36e2be3bf030a65679fe821aa1d6ef92e7c9902eb318182c355691"),
        ("myriadcoin", "00000ffde4c020b5938441a0ea3d314bf619eff0b38f32f78f7583cffa1ea485"),
        ("unobtanium", "000004c2fc5fffb810dccc197d603690099a68305232e552d96ccbe8e2c52b75"),
        ("noteblockchain", "270f3e7b185c412d57ba913d10658df54f15201a67d736cb4071a4ec4eb54836"),
    ];
    for (coin, want) in table.iter() {
        match coin.parse::<CoinType>() {
            Ok(c) => { check(format!("{}", c.genesis_hash) == *want, suite, "C09:block_0_must_hash_to_the_published_genesis_hash", &format!("--coin {}", coin), &format!("{}", c.genesis_hash), want); }
            Err(_) => fail(suite, "C09:block_0_must_hash_to_the_published_genesis_hash", &format!("--coin {}", coin), "unknown coin", want),
        }
    }
    finish(suite, table.len());
}
