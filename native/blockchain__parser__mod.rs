// lane N suites appended to src/blockchain/parser/mod.rs  (driver: C02)

fn expect_events(s: u64, last: u64, chain: &[BlockSpec]) -> Vec<Event> {
    let mut v = vec![Event::Start(s)];
    for h in s..=last { v.push(Event::Block(h, chain[h as usize].hash())); }
    v.push(Event::Complete(last));
    v
}
/// C02 (bounded: every tip T in 0..=4, every accepted (s, e) with e up to T+2, ends at every integer-width limit up to
/// u64::MAX with low bits 0 / 1 / T-1 / T, plus "no option"):
/// the callback sees on_start(s), exactly the blocks s..=min(e,T) ascending once each, on_complete(min(e,T))
#[test]
fn c02_delivered_heights_small_chains() {
    let suite = "c02_delivered_heights_small_chains";
    let mut cases = 0;
    for tip in 0..=(if thorough() { 9u64 } else { 4 }) {
        let chain = make_chain(tip + 1, &mut |_| vec![]);
        // odd tips: one file in height order; even tips: three files, heights stored out of order across the file boundaries
        let d = if tip % 2 == 1 { simple_dir(&chain) } else {
            let mut d = DataDir::new();
            let order: Vec<u64> = (0..=tip).rev().collect();
            for h in order { d.add([2u64, 0, 1][(h % 3) as usize], h, &chain[h as usize], ST_ACTIVE); }
            d
        };
        d.write();
        let mut ranges: Vec<(u64, Option<u64>)> = vec![];
        for s in 0..=tip { ranges.push((s, None)); for e in (s + 1)..=(tip + 2) { ranges.push((s, Some(e))); } }
        // ends far beyond the tip: the limits of every integer width, and values whose low 8 / 16 / 32 bits fall below the tip
        for s in [0, tip / 2, tip] { for w in [8u32, 16, 31, 32, 53, 63] { for low in [0u64, 1, tip.saturating_sub(1), tip] { let e = (1u64 << w) + low; if e > s { ranges.push((s, Some(e))); } } }
            for e in [u64::MAX, u64::MAX - 1, u32::MAX as u64, u32::MAX as u64 + 1, i64::MAX as u64, i64::MAX as u64 + 1] { ranges.push((s, Some(e))); } }
        for (s, e) in ranges {
            cases += 1;
            let last = match e { Some(e) if e < tip => e, _ => tip };
            let want = expect_events(s, last, &chain);
            let inp = format!("tip={} start={} end={:?}", tip, s, e);
            match drive(d.path(), "bitcoin", s, e, false) {
                Ok(got) => { check(got == want, suite, "C02:delivered_heights_inclusive", &inp, &format!("{:?}", got.iter().map(ev).collect::<Vec<_>>()), &format!("{:?}", want.iter().map(ev).collect::<Vec<_>>())); }
                Err(m) => fail(suite, "C02:delivered_heights_inclusive", &inp, &m, "Ok"),
            }
            // --verify does not change which heights are delivered (height 0 of these synthetic chains is not the coin's
            // genesis, so only starts >= 1; a failing run would end the process: fetch every height instead of driving)
            if s >= 1 {
                cases += 1;
                let hs: Vec<u64> = (s..=last).collect();
                let r = fetch(d.path(), "bitcoin", s, e, true, &hs);
                let ok = matches!(&r, Ok(v) if v.iter().zip(hs.iter()).all(|(x, h)| matches!(x, Ok(Some(hh)) if *hh == chain[*h as usize].hash())));
                check(ok, suite, "C02:delivered_heights_inclusive", &format!("{} --verify", inp), &format!("{:?}", r.as_ref().map(|v| v.iter().map(|x| x.as_ref().map(|o| o.is_some()).map_err(|e| e.clone())).collect::<Vec<_>>())), "every height of the range delivered");
            }
        }
    }
    finish(suite, cases);
}
fn ev(e: &Event) -> String { match e { Event::Start(h) => format!("S{}", h), Event::Block(h, _) => format!("B{}", h), Event::Complete(h) => format!("C{}", h) } }

/// C02 (bounded: tips 1..=3): output file names carry s and the last processed height; the per-block
/// output of a range is the corresponding slice of the whole-chain output (csvdump)
#[test]
fn c02_csvdump_file_names_and_slices() {
    use crate::callbacks::csvdump::CsvDump;
    let suite = "c02_csvdump_file_names_and_slices";
    let mut cases = 0;
    for tip in 1..=(if thorough() { 6u64 } else { 3 }) {
        let mut chain = make_chain(tip + 1, &mut |_| vec![]);
        // a byte-identical coinbase in blocks 0 and 2 (pre-BIP34 style): a per-block output must not depend on earlier blocks
        if tip >= 2 { chain[2].txs[0] = chain[0].txs[0].clone(); relink(&mut chain); }
        let d = simple_dir(&chain);
        d.write();
        let run = |s: u64, e: Option<u64>| -> (tempfile::TempDir, std::result::Result<(), String>) {
            let out = tempfile::tempdir().unwrap();
            // leftovers of an earlier, aborted run in the same folder must not leak into the result
            for f in ["blocks", "transactions", "tx_in", "tx_out"] { std::fs::write(out.path().join(format!("{}.csv.tmp", f)), "stale;row;of;an;aborted;run\n".repeat(400)).unwrap(); }
            let m = CsvDump::build_subcommand().get_matches_from(vec!["csvdump", out.path().to_str().unwrap()]);
            let cb = CsvDump::new(&m).unwrap();
            let r = drive_with(d.path(), "bitcoin", s, e, false, Box::new(cb));
            (out, r)
        };
        let (whole_dir, r) = run(0, None);
        if r.is_err() { fail(suite, "C02:whole_chain_runs", &format!("tip={}", tip), &format!("{:?}", r), "Ok"); continue; }
        let whole = csv_lines(&whole_dir.path().join(format!("blocks-0-{}.csv", tip)));
        cases += 1;
        check(whole.len() == tip as usize + 1, suite, "C02:file_name_carries_start_and_last_height", &format!("tip={} no options", tip),
              &format!("{} rows in blocks-0-{}.csv", whole.len(), tip), &format!("{} rows", tip + 1));
        let wt = csv_lines(&whole_dir.path().join(format!("transactions-0-{}.csv", tip)));
        let nt: usize = chain.iter().map(|b| b.txs.len()).sum();
        check(wt.len() == nt, suite, "C02:every_block_of_the_range_contributes", &format!("tip={} no options, transactions.csv", tip), &format!("{} rows", wt.len()), &format!("{} rows", nt));
        for s in 0..=tip { for e in [None, Some(s + 1), Some(tip + 2)] {
            cases += 1;
            let last = match e { Some(e) if e < tip => e, _ => tip };
            let (od, r) = run(s, e);
            let inp = format!("tip={} start={} end={:?}", tip, s, e);
            if let Err(m) = r { fail(suite, "C02:range_runs", &inp, &m, "Ok"); continue; }
            let name = format!("blocks-{}-{}.csv", s, last);
            let rows = csv_lines(&od.path().join(&name));
            let names: Vec<String> = std::fs::read_dir(od.path()).unwrap().map(|x| x.unwrap().file_name().to_string_lossy().to_string()).collect();
            if !check(od.path().join(&name).exists(), suite, "C02:file_name_carries_start_and_last_height", &inp, &format!("{:?}", names), &name) { continue; }
            let want: Vec<String> = whole[s as usize..=last as usize].to_vec();
            check(rows == want, suite, "C02:range_output_is_slice_of_whole_chain_output", &inp, &format!("{} rows", rows.len()), &format!("{} rows", want.len()));
            // the transaction rows of the range are those of its blocks, whatever was seen before the range started
            let trows = csv_lines(&od.path().join(format!("transactions-{}-{}.csv", s, last)));
            let mut twant: Vec<String> = vec![];
            for h in s..=last { let b = &chain[h as usize]; for t in &b.txs { twant.push(format!("{};{};{};{}", hex_rev(&t.txid()), hex_rev(&b.hash()), t.version, t.locktime)); } }
            check(trows == twant, suite, "C02:range_output_is_slice_of_whole_chain_output", &format!("{} transactions.csv", inp), &format!("{} rows", trows.len()), &format!("{} rows", twant.len()));
        } }
    }
    finish(suite, cases);
}

/// child side of the whole-run suites: active only when VERIF_CHILD is set (otherwise it returns at once). It performs ONE
/// real run (ChainStorage::new + BlockchainParser::start with the csvdump callback) in this process, so that a
/// `process::exit` in the code under test ends the child, not the suite.
#[test]
fn zzchild_whole_run() {
    use crate::callbacks::csvdump::CsvDump;
    use crate::callbacks::simplestats::SimpleStats;
    let spec = match std::env::var("VERIF_CHILD") { Ok(s) => s, Err(_) => return };
    let p: Vec<&str> = spec.split('\n').collect();
    let (dir, out, start, verify) = (p[0], p[1], p[2].parse::<u64>().unwrap(), p[3] == "verify");
    let kind = p.get(4).copied().unwrap_or("csvdump");
    let cb: Box<dyn Callback> = if kind == "simplestats" {
        // the report reaches the user through the program's own logger, as in main()
        if crate::common::logger::SimpleLogger::init(log::LevelFilter::Info).is_err() { std::process::exit(5); }
        match SimpleStats::new(&SimpleStats::build_subcommand().get_matches_from(vec!["simplestats"])) { Ok(c) => Box::new(c), Err(_) => std::process::exit(4) }
    } else {
        match CsvDump::new(&CsvDump::build_subcommand().get_matches_from(vec!["csvdump", out])) { Ok(c) => Box::new(c), Err(_) => std::process::exit(4) }
    };
    match drive_with(std::path::Path::new(dir), "bitcoin", start, None, verify, cb) {
        Ok(()) => std::process::exit(0),
        Err(_) => std::process::exit(3),     // what main() does with an Err from start(): non-zero exit
    }
}
/// one real run in a child process: (exit code, file names in `out`, the child's stdout)
pub(crate) fn whole_run_in_child_ex(dir: &std::path::Path, out: &std::path::Path, start: u64, verify: bool, kind: &str) -> (Option<i32>, Vec<String>, String) {
    let spec = format!("{}\n{}\n{}\n{}\n{}", dir.display(), out.display(), start, if verify { "verify" } else { "plain" }, kind);
    let o = std::process::Command::new(std::env::current_exe().unwrap())
        .args(["zzchild_whole_run", "--nocapture", "--test-threads", "1"])
        .env("VERIF_CHILD", spec).stderr(std::process::Stdio::null()).output().unwrap();
    let mut names: Vec<String> = std::fs::read_dir(out).unwrap().map(|e| e.unwrap().file_name().to_string_lossy().to_string()).collect();
    names.sort();
    (o.status.code(), names, String::from_utf8_lossy(&o.stdout).into_owned())
}
fn whole_run_in_child(dir: &std::path::Path, out: &std::path::Path, start: u64, verify: bool) -> (Option<i32>, Vec<String>) {
    let (c, n, _) = whole_run_in_child_ex(dir, out, start, verify, "csvdump");
    (c, n)
}
fn is_final_name(n: &str) -> bool {
    ["blocks-", "transactions-", "tx_in-", "tx_out-"].iter().any(|p| n.starts_with(p)) && n.ends_with(".csv")
}
/// C09 (bounded: a 5-block chain, one flipped bit in tx data / merkle field / prev field of each height 1..=4, starts 1 and h):
/// a --verify run over a changed block ends with a non-zero exit status and leaves no final-named output file; the
/// unchanged chain ends with status 0 and the four final-named files (control: the child mechanism works)
#[test]
fn c09_failed_run_exit_status_and_no_final_output() {
    let suite = "c09_failed_run_exit_status_and_no_final_output";
    let mut k = 0u32;
    let counts = [1usize, 2, 3, 5, 4];
    let chain = make_chain(5, &mut |h| (1..counts[h as usize]).map(|_| { k += 1; let mut id = [0u8; 32]; id[..4].copy_from_slice(&k.to_le_bytes());
        TxSpec::new(vec![TxIn::new(id, 0, vec![0x51])], vec![TxOut::new(k as u64, vec![0x6a, 0x01, k as u8])]) }).collect());
    let mut cases = 0;
    // control
    { cases += 1;
      let d = simple_dir(&chain); d.write();
      let out = tempfile::tempdir().unwrap();
      let (code, names) = whole_run_in_child(d.path(), out.path(), 1, true);
      check(code == Some(0) && names.iter().filter(|n| is_final_name(n)).count() == 4, suite, "C09:consistent_chain_run_succeeds_with_final_named_output",
            "consistent 5-block chain, --verify --start 1", &format!("exit {:?}, files {:?}", code, names), "exit 0 and the four final-named csv files"); }
    let mut rng = Rng::new(909);
    for h in 1..5usize {
        let raw = chain[h].ser();
        for (what, pos) in [("prev-hash field", 4 + rng.below(32) as usize), ("merkle-root field", 36 + rng.below(32) as usize), ("transaction data", 81 + rng.below((raw.len() - 81) as u64) as usize)] {
            let mut d = DataDir::new();
            for (i, b) in chain.iter().enumerate() {
                if i == h { let mut m = raw.clone(); m[pos] ^= 1u8 << rng.below(8); let off = d.put_block(0, 0xd9b4bef9, &m, &[]);
                    d.recs.push(IndexRec { hash: b.hash(), version: 1, height: i as u64, status: ST_ACTIVE, ntx: 1, file: 0, offset: off, header: None }); }
                else { d.add(0, i as u64, b, ST_ACTIVE); }
            }
            d.write();
            for s in [1u64, h as u64] {
                if s == h as u64 && h == 1 { continue; }
                cases += 1;
                let out = tempfile::tempdir().unwrap();
                let (code, names) = whole_run_in_child(d.path(), out.path(), s, true);
                let inp = format!("height {} bit flip in {} (byte {}), --verify --start {}", h, what, pos, s);
                check(code != Some(0), suite, "C09:failed_verify_run_exits_non_zero", &inp, &format!("exit {:?}", code), "non-zero exit status");
                let finals: Vec<&String> = names.iter().filter(|n| is_final_name(n)).collect();
                check(finals.is_empty(), suite, "C09:failed_verify_run_leaves_no_final_named_output", &inp, &format!("files {:?}", names), "no final-named csv file");
            }
        }
    }
    finish(suite, cases);
}

/// C02 (bounded: one chain of 40 blocks x 25 OP_RETURN outputs of 60 bytes, about 160 KiB of output; 3 ranges): opreturn
/// prints every line of the range exactly once, in ascending height order, and a range prints the slice of the whole run
#[test]
fn c02_opreturn_long_run_prints_each_line_once() {
    use crate::callbacks::opreturn::OpReturn;
    let suite = "c02_opreturn_long_run_prints_each_line_once";
    let mut k = 0u32;
    let chain = make_chain(41, &mut |h| if h == 0 { vec![] } else {
        vec![TxSpec::new(vec![TxIn::new([h as u8; 32], 0, vec![0x51])], (0..25).map(|i| { k += 1; let mut p = format!("h{:03}o{:02}-{:06}-", h, i, k).into_bytes(); p.resize(60, b'x'); let mut sc = vec![0x6a, 60u8]; sc.extend(p); TxOut::new(0, sc) }).collect())] });
    let d = simple_dir(&chain); d.write();
    let mut cases = 0;
    let lines_of = |s: u64, e: Option<u64>| -> std::result::Result<Vec<String>, String> {
        let last = e.unwrap_or(40).min(40);
        let blocks = fetch_blocks(d.path(), "litecoin", s, last, false)?;
        let text = capture_stdout(|| { let mut cb = OpReturn::new(&OpReturn::build_subcommand().get_matches_from(vec!["opreturn"])).unwrap();
            cb.on_start(s).unwrap(); for (i, b) in blocks.iter().enumerate() { cb.on_block(b, s + i as u64).unwrap(); } cb.on_complete(last).unwrap(); drop(cb); });
        Ok(text.lines().filter(|l| l.starts_with("height: ") && l.contains("    data: h")).map(|l| l.to_string()).collect())
    };
    let whole = match lines_of(0, None) { Ok(v) => v, Err(m) => { fail(suite, "C02:run_completes", "whole chain", &m, "Ok"); finish(suite, 1); return; } };
    cases += 1;
    let want: Vec<String> = (1..=40u64).flat_map(|h| { let t = &chain[h as usize].txs[1]; let id = hex_rev(&t.txid());
        t.outputs.iter().map(move |o| format!("height: {: <9} txid: {}    data: {}", h, id, String::from_utf8_lossy(&o.script[2..]))).collect::<Vec<_>>() }).collect();
    if whole != want {
        let i = (0..whole.len().max(want.len())).find(|i| whole.get(*i) != want.get(*i)).unwrap_or(0);
        fail(suite, "C02:each_block_exactly_once_in_ascending_order", &format!("opreturn over heights 0..=40 ({} lines printed, {} expected), first difference at line {}", whole.len(), want.len(), i), &format!("{:?}", whole.get(i).map(|s| &s[..s.len().min(60)])), &format!("{:?}", want.get(i).map(|s| &s[..s.len().min(60)])));
    }
    for (s, e) in [(5u64, Some(20u64)), (30, None), (17, Some(18))] {
        cases += 1;
        let last = e.unwrap_or(40);
        let got = lines_of(s, e).unwrap_or_else(|m| vec![format!("ERR {}", m)]);
        let slice: Vec<String> = want.iter().filter(|l| { let h: u64 = l[8..17].trim().parse().unwrap(); h >= s && h <= last }).cloned().collect();
        check(got == slice, suite, "C02:range_result_is_the_slice_of_the_whole_chain_result", &format!("opreturn range {}..{:?}", s, e), &format!("{} lines", got.len()), &format!("{} lines", slice.len()));
    }
    finish(suite, cases);
}
