// lane N suites appended to src/blockchain/parser/mod.rs  (driver: C02)

fn expect_events(s: u64, last: u64, chain: &[BlockSpec]) -> Vec<Event> {
    let mut v = vec![Event::Start(s)];
    for h in s..=last { v.push(Event::Block(h, chain[h as usize].hash())); }
    v.push(Event::Complete(last));
    v
}
/// C02 (bounded: every tip T in 0..=4, every accepted (s, e) with e up to T+2, plus "no option"):
/// the callback sees on_start(s), exactly the blocks s..=min(e,T) ascending once each, on_complete(min(e,T))
#[test]
fn c02_delivered_heights_small_chains() {
    let suite = "c02_delivered_heights_small_chains";
    let mut cases = 0;
    for tip in 0..=(if thorough() { 9u64 } else { 4 }) {
        let chain = make_chain(tip + 1, &mut |_| vec![]);
        // odd tips: one file in height order; even tips: three files, heights stored out of order across the file boundaries
        let d = if tip % 2 == 1 { simple_dir(&chain) } else {
            let mut d = DataDir::new();
            let order: Vec<u64> = (0..=tip).rev().collect();
            for h in order { d.add([2u64, 0, 1][(h % 3) as usize], h, &chain[h as usize], ST_ACTIVE); }
            d
        };
        d.write();
        let mut ranges: Vec<(u64, Option<u64>)> = vec![];
        for s in 0..=tip { ranges.push((s, None)); for e in (s + 1)..=(tip + 2) { ranges.push((s, Some(e))); } }
        for (s, e) in ranges {
            cases += 1;
            let last = match e { Some(e) if e < tip => e, _ => tip };
            let want = expect_events(s, last, &chain);
            let inp = format!("tip={} start={} end={:?}", tip, s, e);
            match drive(d.path(), "bitcoin", s, e, false) {
                Ok(got) => { check(got == want, suite, "C02:delivered_heights_inclusive", &inp, &format!("{:?}", got.iter().map(ev).collect::<Vec<_>>()), &format!("{:?}", want.iter().map(ev).collect::<Vec<_>>())); }
                Err(m) => fail(suite, "C02:delivered_heights_inclusive", &inp, &m, "Ok"),
            }
        }
    }
    finish(suite, cases);
}
fn ev(e: &Event) -> String { match e { Event::Start(h) => format!("S{}", h), Event::Block(h, _) => format!("B{}", h), Event::Complete(h) => format!("C{}", h) } }

/// C02 (bounded: tips 1..=3): output file names carry s and the last processed height; the per-block
/// output of a range is the corresponding slice of the whole-chain output (csvdump)
#[test]
fn c02_csvdump_file_names_and_slices() {
    use crate::callbacks::csvdump::CsvDump;
    let suite = "c02_csvdump_file_names_and_slices";
    let mut cases = 0;
    for tip in 1..=(if thorough() { 6u64 } else { 3 }) {
        let mut chain = make_chain(tip + 1, &mut |_| vec![]);
        // a byte-identical coinbase in blocks 0 and 2 (pre-BIP34 style): a per-block output must not depend on earlier blocks
        if tip >= 2 { chain[2].txs[0] = chain[0].txs[0].clone(); relink(&mut chain); }
        let d = simple_dir(&chain);
        d.write();
        let run = |s: u64, e: Option<u64>| -> (tempfile::TempDir, std::result::Result<(), String>) {
            let out = tempfile::tempdir().unwrap();
            // leftovers of an earlier, aborted run in the same folder must not leak into the result
            for f in ["blocks", "transactions", "tx_in", "tx_out"] { std::fs::write(out.path().join(format!("{}.csv.tmp", f)), "stale;row;of;an;aborted;run\n".repeat(400)).unwrap(); }
            let m = CsvDump::build_subcommand().get_matches_from(vec!["csvdump", out.path().to_str().unwrap()]);
            let cb = CsvDump::new(&m).unwrap();
            let r = drive_with(d.path(), "bitcoin", s, e, false, Box::new(cb));
            (out, r)
        };
        let (whole_dir, r) = run(0, None);
        if r.is_err() { fail(suite, "C02:whole_chain_runs", &format!("tip={}", tip), &format!("{:?}", r), "Ok"); continue; }
        let whole = csv_lines(&whole_dir.path().join(format!("blocks-0-{}.csv", tip)));
        cases += 1;
        check(whole.len() == tip as usize + 1, suite, "C02:file_name_carries_start_and_last_height", &format!("tip={} no options", tip),
              &format!("{} rows in blocks-0-{}.csv", whole.len(), tip), &format!("{} rows", tip + 1));
        let wt = csv_lines(&whole_dir.path().join(format!("transactions-0-{}.csv", tip)));
        let nt: usize = chain.iter().map(|b| b.txs.len()).sum();
        check(wt.len() == nt, suite, "C02:every_block_of_the_range_contributes", &format!("tip={} no options, transactions.csv", tip), &format!("{} rows", wt.len()), &format!("{} rows", nt));
        for s in 0..=tip { for e in [None, Some(s + 1), Some(tip + 2)] {
            cases += 1;
            let last = match e { Some(e) if e < tip => e, _ => tip };
            let (od, r) = run(s, e);
            let inp = format!("tip={} start={} end={:?}", tip, s, e);
            if let Err(m) = r { fail(suite, "C02:range_runs", &inp, &m, "Ok"); continue; }
            let name = format!("blocks-{}-{}.csv", s, last);
            let rows = csv_lines(&od.path().join(&name));
            let names: Vec<String> = std::fs::read_dir(od.path()).unwrap().map(|x| x.unwrap().file_name().to_string_lossy().to_string()).collect();
            if !check(od.path().join(&name).exists(), suite, "C02:file_name_carries_start_and_last_height", &inp, &format!("{:?}", names), &name) { continue; }
            let want: Vec<String> = whole[s as usize..=last as usize].to_vec();
            check(rows == want, suite, "C02:range_output_is_slice_of_whole_chain_output", &inp, &format!("{} rows", rows.len()), &format!("{} rows", want.len()));
            // the transaction rows of the range are those of its blocks, whatever was seen before the range started
            let trows = csv_lines(&od.path().join(format!("transactions-{}-{}.csv", s, last)));
            let mut twant: Vec<String> = vec![];
            for h in s..=last { let b = &chain[h as usize]; for t in &b.txs { twant.push(format!("{};{};{};{}", hex_rev(&t.txid()), hex_rev(&b.hash()), t.version, t.locktime)); } }
            check(trows == twant, suite, "C02:range_output_is_slice_of_whole_chain_output", &format!("{} transactions.csv", inp), &format!("{} rows", trows.len()), &format!("{} rows", twant.len()));
        } }
    }
    finish(suite, cases);
}
