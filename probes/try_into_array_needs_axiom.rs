use vstd::prelude::*;
use std::convert::TryInto;
verus! {
global size_of usize == 8;
#[verifier::external_type_specification]
#[verifier::external_body]
pub struct ExTryFromSliceError(std::array::TryFromSliceError);

fn f(key: &[u8]) -> (r: [u8; 32])
    requires key@.len() == 32
{
    let block_hash: [u8; 32] = key.try_into().expect("leveldb: malformed blockhash");
    block_hash
}
} // verus!
fn main() {}
