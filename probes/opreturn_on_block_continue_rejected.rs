use vstd::prelude::*;
macro_rules! println { ($fmt:expr, $a:expr, $b:expr, $c:expr) => { crate::print3($a, $b, $c) } }
verus! {
global size_of usize == 8;
pub struct Error;
pub type Result<T> = core::result::Result<T, Error>;
pub mod sha256d { #[derive(Clone, Copy)] pub struct Hash(pub [u8; 32]); }
pub enum ScriptPattern { OpReturn(String), NotRecognised }
pub struct EvaluatedScript { pub address: Option<String>, pub pattern: ScriptPattern }
pub struct EvaluatedTxOut { pub script: EvaluatedScript }
pub struct EvaluatedTx { pub outputs: Vec<EvaluatedTxOut> }
pub struct Hashed<T> { pub hash: sha256d::Hash, pub value: T }
pub struct Block { pub txs: Vec<Hashed<EvaluatedTx>> }
#[verifier::external_body]
pub fn print3(a: u64, b: &sha256d::Hash, c: &String) { unimplemented!() }
pub struct OpReturn;
impl OpReturn {
    fn on_block(&mut self, block: &Block, block_height: u64) -> Result<()> {
        for tx in &block.txs {
            for out in tx.value.outputs.iter() {
                if let ScriptPattern::OpReturn(data) = &out.script.pattern {
                    if data.is_empty() {
                        continue;
                    }
                    println!(
                        "height: {: <9} txid: {}    data: {}",
                        block_height, &tx.hash, data
                    );
                }
            }
        }
        Ok(())
    }
}
} // verus!
fn main() {}
