use vstd::prelude::*;
verus! {
#[derive(Clone, Copy, PartialEq, Eq)]
pub struct Opcode { pub code: u8 }
pub enum ScriptError { UnexpectedEof, InvalidFormat }
#[derive(Clone, PartialEq, Eq)]
pub enum ScriptPattern { OpReturn(String), Pay2PublicKey, NotRecognised }
pub enum StackElement { Op(Opcode), Data(Vec<u8>) }
impl StackElement {
    pub fn data(&self) -> Result<Vec<u8>, ScriptError> {
        match *self {
            StackElement::Op(_) => Err(ScriptError::InvalidFormat),
            StackElement::Data(ref d) => Ok(d.clone()),
        }
    }
}
impl PartialEq for StackElement {
    fn eq(&self, other: &Self) -> bool {
        match *self {
            StackElement::Op(code) => match *other {
                StackElement::Op(p_code) => code == p_code,
                StackElement::Data(_) => false,
            },
            StackElement::Data(_) => match *other {
                StackElement::Data(_) => true,
                StackElement::Op(_) => false,
            },
        }
    }
}
pub struct Stack { pub pattern: ScriptPattern, pub elements: Vec<StackElement> }
pub struct EvaluatedScript { pub address: Option<String>, pub pattern: ScriptPattern }

pub fn match_stack_pattern(elements: &[StackElement], pattern: &[StackElement]) -> bool {
    let plen = pattern.len();
    if elements.len() != plen {
        return false;
    }
    for i in 0..plen {
        if elements[i] != pattern[i] {
            return false;
        }
    }
    true
}

fn compute_stack(stack: Stack, version_id: u8) -> Result<EvaluatedScript, ScriptError>
    requires stack.elements@.len() > 0
{
    let script = match stack.pattern {
        ref p @ ScriptPattern::Pay2PublicKey => {
            let pub_key = stack.elements[0].data()?;
            EvaluatedScript {
                address: None,
                pattern: p.clone(),
            }
        }
        ScriptPattern::OpReturn(ref data) => EvaluatedScript {
            address: None,
            pattern: ScriptPattern::OpReturn(data.clone()),
        },
        ref p => EvaluatedScript {
            address: None,
            pattern: p.clone(),
        },
    };
    Ok(script)
}
} // verus!
fn main() {}
