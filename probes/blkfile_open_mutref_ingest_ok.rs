use vstd::prelude::*;
verus! {
global size_of usize == 8;
pub struct Error;
pub type Result<T> = core::result::Result<T, Error>;
pub struct XorReader { pub k: u64 }
pub struct PathBuf;
#[verifier::external_body]
pub fn open_reader(p: &PathBuf, key: Option<Vec<u8>>) -> (r: Result<XorReader>) { unimplemented!() }
pub struct BlkFile { pub path: PathBuf, pub xor_key: Option<Vec<u8>>, pub reader: Option<XorReader> }
impl BlkFile {
    fn open(&mut self) -> Result<&mut XorReader> {
        if self.reader.is_none() {
            let r = open_reader(&self.path, self.xor_key.clone())?;
            self.reader = Some(r);
        }
        Ok(self.reader.as_mut().unwrap())
    }
    pub fn close(&mut self) {
        if self.reader.is_some() {
            self.reader = None;
        }
    }
    pub fn read_block(&mut self, offset: u64) -> Result<u64>
        requires offset >= 4
    {
        let reader = self.open()?;
        let x = reader.k;
        Ok(x + 0)
    }
}
} // verus!
fn main() {}
