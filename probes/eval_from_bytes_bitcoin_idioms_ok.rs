use vstd::prelude::*;
macro_rules! warn { ($($t:tt)*) => { () } }
macro_rules! format { ($fmt:expr, $a:expr) => { crate::fmt1(&$a) } }
macro_rules! println { ($fmt:expr, $a:expr, $b:expr, $c:expr) => { crate::print3($a, $b, $c) } }
verus! {
global size_of usize == 8;

#[derive(Clone, Copy)]
pub enum Network { Bitcoin, Testnet }
pub struct Script { pub b: Vec<u8> }
pub struct Address { pub payload: Vec<u8> }
#[derive(PartialEq, Eq)]
pub enum FromScriptError { UnrecognizedScript, WitnessProgram, WitnessVersion }
use FromScriptError::UnrecognizedScript;
#[verifier::external_type_specification]
#[verifier::external_body]
pub struct ExFromUtf8Error(std::string::FromUtf8Error);
pub uninterp spec fn utf8_valid(b: Seq<u8>) -> bool;
pub uninterp spec fn utf8_decode(b: Seq<u8>) -> Seq<char>;
pub assume_specification [std::string::String::from_utf8] (v: std::vec::Vec<u8>) -> (r: std::result::Result<std::string::String, std::string::FromUtf8Error>)
    ensures r is Ok <==> utf8_valid(v@), r is Ok ==> r->Ok_0@ == utf8_decode(v@);

#[verifier::external_body]
pub fn fmt1(a: &Address) -> (r: String) { unimplemented!() }
#[verifier::external_body]
pub fn print3(a: u64, b: &[u8; 32], c: &String) { unimplemented!() }
#[verifier::external_body]
pub fn idiom_skip_collect(v: Vec<u8>, n: usize) -> (r: Vec<u8>) ensures r@ == v@.skip(n as int) { unimplemented!() }
#[verifier::external_body]
pub fn string_from(s: &str) -> (r: String) { unimplemented!() }

impl Script {
    #[verifier::external_body]
    pub fn from_bytes(bytes: &[u8]) -> (r: &Script) ensures r.b@ == bytes@ { unimplemented!() }
    #[verifier::external_body]
    pub fn to_bytes(&self) -> (r: Vec<u8>) ensures r@ == self.b@ { unimplemented!() }
    #[verifier::external_body]
    pub fn is_op_return(&self) -> (r: bool) ensures r == (self.b@.len() > 0 && self.b@[0] == 0x6a) { unimplemented!() }
    #[verifier::external_body]
    pub fn is_p2pk(&self) -> (r: bool) { unimplemented!() }
    #[verifier::external_body]
    pub fn is_p2pkh(&self) -> (r: bool) { unimplemented!() }
}
impl Address {
    #[verifier::external_body]
    pub fn from_script(script: &Script, network: Network) -> (r: Result<Address, FromScriptError>) { unimplemented!() }
}

pub enum ScriptPattern { OpReturn(String), Pay2PublicKey, Pay2PublicKeyHash, Unspendable, NotRecognised }
pub struct EvaluatedScript { pub address: Option<String>, pub pattern: ScriptPattern }
impl EvaluatedScript {
    pub fn new(address: Option<String>, pattern: ScriptPattern) -> (r: Self) ensures r.address == address, r.pattern == pattern { Self { address, pattern } }
}
#[verifier::external_body]
fn is_provable_unspendable(script: &Script) -> bool { unimplemented!() }
#[verifier::external_body]
fn p2pk_to_string(script: &Script, network: Network) -> Option<String> { unimplemented!() }

pub fn eval_from_bytes_bitcoin(bytes: &[u8], version_id: u8) -> (r: EvaluatedScript)
    requires version_id == 0x00 || version_id == 0x6f
    ensures (bytes@.len() > 0 && bytes@[0] == 0x6a) ==> (r.pattern is OpReturn && r.address is None && (utf8_valid(bytes@.skip(2)) ==> r.pattern->OpReturn_0@ == utf8_decode(bytes@.skip(2))))
{
    let network = match version_id {
        0x00 => Network::Bitcoin,
        0x6f => Network::Testnet,
        _ => panic!("invalid network version"),
    };

    let script = Script::from_bytes(bytes);

    // For OP_RETURN and provably unspendable scripts there is no point in parsing the address
    if script.is_op_return() {
        // OP_RETURN 13 <data>
        let data = String::from_utf8(idiom_skip_collect(script.to_bytes(), 2));
        let pattern = ScriptPattern::OpReturn(match data { Ok(v) => v, Err(_) => String::from("") });
        return EvaluatedScript::new(None, pattern);
    } else if is_provable_unspendable(script) {
        return EvaluatedScript::new(None, ScriptPattern::Unspendable);
    }

    let address = match Address::from_script(script, network) {
        Ok(address) => Some(format!("{}", address)),
        Err(err) => {
            if err != UnrecognizedScript {
                warn!(target: "script", "Unable to extract evaluated address: {}", err)
            }
            None
        }
    };

    if script.is_p2pk() {
        EvaluatedScript::new(
            p2pk_to_string(script, network),
            ScriptPattern::Pay2PublicKey,
        )
    } else if script.is_p2pkh() {
        EvaluatedScript::new(address, ScriptPattern::Pay2PublicKeyHash)
    } else {
        EvaluatedScript::new(address, ScriptPattern::NotRecognised)
    }
}
} // verus!
fn main() {}
