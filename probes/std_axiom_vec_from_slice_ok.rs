use vstd::prelude::*;
verus! {
global size_of usize == 8;
pub mod std_axioms {
    use vstd::prelude::*;
    use vstd::std_specs::convert::FromSpec;
    pub broadcast proof fn axiom_vec_from_slice_obeys()
        ensures #[trigger] <Vec<u8> as FromSpec<&[u8]>>::obeys_from_spec(),
    { admit(); }
    pub broadcast proof fn axiom_vec_from_slice(s: &[u8])
        ensures (#[trigger] <Vec<u8> as FromSpec<&[u8]>>::from_spec(s))@ == s@,
    { admit(); }
}
pub mod unit {
    use vstd::prelude::*;
    broadcast use {super::std_axioms::axiom_vec_from_slice, super::std_axioms::axiom_vec_from_slice_obeys};
    fn f(bytes: &[u8], a: usize, n: usize)
        requires a + n <= bytes@.len(), bytes@.len() < 1000
    {
        let s = &bytes[a..a + n];
        let data = Vec::from(s);
        assert(data@ =~= s@);
    }
}
} // verus!
fn main() {}
