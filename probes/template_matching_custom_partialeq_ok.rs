use vstd::prelude::*;
verus! {
global size_of usize == 8;
#[derive(Clone, Copy, PartialEq, Eq, Structural)]
pub struct Opcode { pub code: u8 }
pub mod all {
    use super::Opcode;
    pub const OP_DUP: Opcode = Opcode { code: 0x76 };
    pub const OP_HASH160: Opcode = Opcode { code: 0xa9 };
    pub const OP_EQUALVERIFY: Opcode = Opcode { code: 0x88 };
    pub const OP_CHECKSIG: Opcode = Opcode { code: 0xac };
    pub const OP_RETURN: Opcode = Opcode { code: 0x6a };
}
pub enum ScriptError { UnexpectedEof, InvalidFormat }
pub enum ScriptPattern { OpReturn(String), Pay2PublicKey, Pay2PublicKeyHash, NotRecognised, Error(ScriptError) }
pub enum StackElement { Op(Opcode), Data(Vec<u8>) }

pub open spec fn kind_eq(a: StackElement, b: StackElement) -> bool {
    match (a, b) {
        (StackElement::Op(x), StackElement::Op(y)) => x == y,
        (StackElement::Data(_), StackElement::Data(_)) => true,
        _ => false,
    }
}
impl StackElement {
    pub fn data(&self) -> (r: Result<Vec<u8>, ScriptError>)
        ensures match *self { StackElement::Data(d) => r is Ok && r->Ok_0@ == d@, StackElement::Op(_) => r is Err }
    {
        match *self {
            StackElement::Op(_) => Err(ScriptError::InvalidFormat),
            StackElement::Data(ref d) => Ok(d.clone()),
        }
    }
}
impl vstd::std_specs::cmp::PartialEqSpecImpl for StackElement {
    open spec fn obeys_eq_spec() -> bool { true }
    open spec fn eq_spec(&self, other: &Self) -> bool { kind_eq(*self, *other) }
}
impl PartialEq for StackElement {
    fn eq(&self, other: &Self) -> bool {
        match *self {
            StackElement::Op(code) => match *other {
                StackElement::Op(p_code) => code == p_code,
                StackElement::Data(_) => false,
            },
            StackElement::Data(_) => match *other {
                StackElement::Data(_) => true,
                StackElement::Op(_) => false,
            },
        }
    }
}

#[verifier::external_body]
pub fn lossy(data: &Vec<u8>) -> (r: String) { unimplemented!() }

pub struct ScriptEvaluator;
impl ScriptEvaluator {
    pub fn match_stack_pattern(elements: &[StackElement], pattern: &[StackElement]) -> (r: bool)
        ensures r == (elements@.len() == pattern@.len() && forall|i: int| 0 <= i < pattern@.len() ==> kind_eq(elements@[i], pattern@[i]))
    {
        let plen = pattern.len();
        if elements.len() != plen {
            return false;
        }
        for i in 0..plen
            invariant plen == pattern@.len(), elements@.len() == plen,
                forall|j: int| 0 <= j < i ==> kind_eq(elements@[j], pattern@[j]),
        {
            if elements[i] != pattern[i] {
                return false;
            }
        }
        true
    }

    fn eval_script_pattern(elements: &[StackElement]) -> (r: ScriptPattern)
    {
        // Pay to Public Key Hash (p2pkh)
        let p2pkh = [
            StackElement::Op(all::OP_DUP),
            StackElement::Op(all::OP_HASH160),
            StackElement::Data(Vec::new()),
            StackElement::Op(all::OP_EQUALVERIFY),
            StackElement::Op(all::OP_CHECKSIG),
        ];
        if ScriptEvaluator::match_stack_pattern(elements, &p2pkh) {
            return ScriptPattern::Pay2PublicKeyHash;
        }
        let data_output = [
            StackElement::Op(all::OP_RETURN),
            StackElement::Data(Vec::new()),
        ];
        if ScriptEvaluator::match_stack_pattern(elements, &data_output) {
            return match elements[1].data() {
                Ok(data) => ScriptPattern::OpReturn(lossy(&data)),
                Err(_) => ScriptPattern::Error(ScriptError::InvalidFormat),
            };
        }
        ScriptPattern::NotRecognised
    }
}
} // verus!
fn main() {}
