use vstd::prelude::*;
verus! {
global size_of usize == 8;
pub struct Error;
pub type Result<T> = core::result::Result<T, Error>;
pub mod io { pub type Error = super::Error; pub type Result<T> = core::result::Result<T, Error>; }
pub struct CoinType { pub version_id: u8, pub aux_pow_activation_version: Option<u32> }
pub struct BlockHeader { pub version: u32 }
pub struct AuxPowExtension { pub x: u8 }
pub struct RawTx { pub v: u32 }
pub struct VarUint { pub value: u64 }
pub struct Block { pub size: u32, pub aux: Option<AuxPowExtension>, pub n: u64 }
impl Block {
    #[verifier::external_body]
    pub fn new(size: u32, header: BlockHeader, aux_pow_extension: Option<AuxPowExtension>, tx_count: VarUint, txs: Vec<RawTx>) -> (r: Block)
        ensures r.size == size, r.aux == aux_pow_extension
    { unimplemented!() }
}
pub trait Read { }
impl VarUint {
    #[verifier::external_body]
    pub fn read_from<R: Read + ?Sized>(reader: &mut R) -> (r: io::Result<VarUint>) { unimplemented!() }
}
pub trait BlockchainRead: Read {
    fn read_block_header(&mut self) -> (r: Result<BlockHeader>);
    fn read_aux_pow_extension(&mut self, version_id: u8) -> (r: Result<AuxPowExtension>);
    fn read_txs(&mut self, tx_count: u64, version_id: u8) -> (r: Result<Vec<RawTx>>);

    fn read_block(&mut self, size: u32, coin: &CoinType) -> (r: Result<Block>)
        ensures r is Ok ==> (r->Ok_0.aux is Some ==> coin.aux_pow_activation_version is Some)
    {
        let header = self.read_block_header()?;
        // Parse AuxPow data if present
        let aux_pow_extension = match coin.aux_pow_activation_version {
            Some(version) if header.version >= version => {
                Some(self.read_aux_pow_extension(coin.version_id)?)
            }
            _ => None,
        };
        let tx_count = VarUint::read_from(self)?;
        let txs = self.read_txs(tx_count.value, coin.version_id)?;
        Ok(Block::new(size, header, aux_pow_extension, tx_count, txs))
    }
}
} // verus!
fn main() {}
