use vstd::prelude::*;
macro_rules! format { ($($t:tt)*) => { crate::fmt_shim() } }
verus! {
global size_of usize == 8;
pub struct Error;
pub type Result<T> = core::result::Result<T, Error>;
#[verifier::external_body]
pub fn fmt_shim() -> String { String::new() }
impl From<String> for Error { #[verifier::external_body] fn from(s: String) -> Error { Error } }
#[derive(Clone, Copy, PartialEq, Eq, Structural)] pub struct Sha256dHash(pub [u8; 32]);
pub mod sha256d { pub use super::Sha256dHash as Hash; }
pub struct BlockHeader { pub prev_hash: sha256d::Hash, pub merkle_root: sha256d::Hash }
pub struct Hashed<T> { pub hash: sha256d::Hash, pub value: T }
pub struct Block { pub header: Hashed<BlockHeader> }
impl Block {
    #[verifier::external_body] pub fn compute_merkle_root(&self) -> (r: sha256d::Hash) ensures r == spec_merkle(*self) { unimplemented!() }
    pub fn verify_merkle_root(&self) -> (r: Result<()>)
        ensures r is Ok <==> self.header.value.merkle_root == spec_merkle(*self)
    {
        let merkle_root = self.compute_merkle_root();

        if merkle_root == self.header.value.merkle_root {
            Ok(())
        } else {
            let msg = format!(
                "Invalid merkle_root!\n  -> expected: {}\n  -> got: {}\n",
                &self.header.value.merkle_root, &merkle_root
            );
            Err(msg.into())
        }
    }
}
pub uninterp spec fn spec_merkle(b: Block) -> sha256d::Hash;
pub struct CoinType { pub genesis_hash: sha256d::Hash }
pub struct BlockIndexRecord { pub block_hash: sha256d::Hash }
pub struct ChainIndex { pub g: Ghost<Map<u64, BlockIndexRecord>> }
impl ChainIndex {
    #[verifier::external_body]
    pub fn get(&self, height: u64) -> (r: Option<&BlockIndexRecord>)
        ensures r is Some <==> self.g@.contains_key(height), r is Some ==> *r->Some_0 == self.g@[height]
    { unimplemented!() }
}
pub struct ChainStorage { pub chain_index: ChainIndex, pub coin: CoinType, pub verify: bool }
impl ChainStorage {
    fn verify(&self, block: &Block, height: u64) -> (r: Result<()>)
        requires height > 0 ==> self.chain_index.g@.contains_key((height - 1) as u64)
    {
        block.verify_merkle_root()?;
        if height == 0 {
            if block.header.hash != self.coin.genesis_hash {
                let msg = format!(
                    "Genesis block hash doesn't match!\n  -> expected: {}\n  -> got: {}\n",
                    &self.coin.genesis_hash, &block.header.hash,
                );
                return Err(msg.into());
            }
        } else {
            let prev_hash = self
                .chain_index
                .get(height - 1)
                .expect("unable to fetch prev block in chain index")
                .block_hash;
            if block.header.value.prev_hash != prev_hash {
                let msg = format!(
                    "prev_hash for block {} doesn't match!\n  -> expected: {}\n  -> got: {}\n",
                    &block.header.hash, &block.header.value.prev_hash, &prev_hash
                );
                return Err(msg.into());
            }
        }
        Ok(())
    }
}
} // verus!
fn main() {}
