use vstd::prelude::*;
verus! {
global size_of usize == 8;
pub struct Error;
pub type Result<T> = core::result::Result<T, Error>;
pub mod io { pub type Error = super::Error; pub type Result<T> = core::result::Result<T, Error>; }
pub struct LittleEndian;
pub trait Read {
    fn read_u8(&mut self) -> (r: io::Result<u8>);
    fn read_u32<B>(&mut self) -> (r: io::Result<u32>);
}
pub struct VarUint { pub value: u64, pub buf: Vec<u8> }
impl VarUint {
    #[verifier::external_body]
    pub fn read_from<R: Read + ?Sized>(reader: &mut R) -> (r: io::Result<VarUint>) { unimplemented!() }
}
pub struct TxInput { pub seq_no: u32 }
pub struct TxOutput { pub value: u64 }
pub struct RawTx {
    pub version: u32, pub in_count: VarUint, pub inputs: Vec<TxInput>, pub out_count: VarUint,
    pub outputs: Vec<TxOutput>, pub locktime: u32, pub version_id: u8,
}
pub trait BlockchainRead: Read {
    fn read_u8_vec(&mut self, count: u32) -> (r: Result<Vec<u8>>);
    fn read_tx_inputs(&mut self, input_count: u64) -> (r: Result<Vec<TxInput>>);
    fn read_tx_outputs(&mut self, output_count: u64) -> (r: Result<Vec<TxOutput>>);

    fn read_tx(&mut self, version_id: u8) -> Result<RawTx> {
        let mut flags = 0u8;
        let version = self.read_u32::<LittleEndian>()?;

        // Parse transaction inputs and check if this transaction contains segwit data
        let mut in_count = VarUint::read_from(self)?;
        if in_count.value == 0 {
            flags = self.read_u8()?;
            // TODO: handle segwit data
            in_count = VarUint::read_from(self)?
        }
        let inputs = self.read_tx_inputs(in_count.value)?;

        // Parse transaction outputs
        let out_count = VarUint::read_from(self)?;
        let outputs = self.read_tx_outputs(out_count.value)?;

        // Check if the witness flag is present
        if flags & 1 > 0 {
            for _ in 0..in_count.value {
                let item_count = VarUint::read_from(self)?;
                for _ in 0..item_count.value {
                    let witness_len = VarUint::read_from(self)?;
                    let _ = self.read_u8_vec(witness_len.value as u32)?;
                }
            }
        }
        let locktime = self.read_u32::<LittleEndian>()?;
        let tx = RawTx {
            version,
            in_count,
            inputs,
            out_count,
            outputs,
            locktime,
            version_id,
        };
        Ok(tx)
    }
}
} // verus!
fn main() {}
