use vstd::prelude::*;
macro_rules! debug { ($($t:tt)*) => { () } }
verus! {
global size_of usize == 8;

pub struct UnspentValue { pub block_height: u64, pub value: u64, pub address: String }
pub mod sha256d { #[derive(Clone, Copy)] pub struct Hash(pub [u8; 32]); }
pub struct TxOutpoint { pub txid: sha256d::Hash, pub index: u32 }
pub struct VarUint { pub value: u64 }
pub struct TxOutput { pub value: u64 }
pub struct EvaluatedScript { pub address: Option<String>, pub pattern: u8 }
pub struct EvaluatedTxOut { pub script: EvaluatedScript, pub out: TxOutput }
pub struct EvaluatedTx { pub outputs: Vec<EvaluatedTxOut>, pub out_count: VarUint }
pub struct Hashed<T> { pub hash: sha256d::Hash, pub value: T }

pub open spec fn key_of(txid: sha256d::Hash, index: u32) -> Seq<u8>;

impl TxOutpoint {
    pub fn new(txid: sha256d::Hash, index: u32) -> (r: Self) ensures r.txid == txid, r.index == index { Self { txid, index } }
    #[verifier::external_body]
    pub fn to_bytes(&self) -> (r: Vec<u8>) ensures r@ == key_of(self.txid, self.index) { unimplemented!() }
}

#[verifier::external_body]
#[verifier::reject_recursive_types(K)]
#[verifier::reject_recursive_types(V)]
pub struct HashMap<K, V> { inner: std::collections::HashMap<u64, (K, V)> }
impl<V> HashMap<Vec<u8>, V> {
    pub uninterp spec fn view(&self) -> Map<Seq<u8>, V>;
    #[verifier::external_body]
    pub fn insert(&mut self, k: Vec<u8>, v: V) -> (r: Option<V>)
        ensures final(self).view() == old(self).view().insert(k@, v)
    { unimplemented!() }
}

pub open spec fn uv(h: u64, o: EvaluatedTxOut) -> UnspentValue {
    UnspentValue { block_height: h, value: o.out.value, address: o.script.address->Some_0 }
}
pub open spec fn ins_all(m: Map<Seq<u8>, UnspentValue>, txid: sha256d::Hash, h: u64, outs: Seq<EvaluatedTxOut>, n: int) -> Map<Seq<u8>, UnspentValue>
    decreases n
{
    if n <= 0 { m } else {
        let p = ins_all(m, txid, h, outs, n - 1);
        if outs[n-1].script.address is Some { p.insert(key_of(txid, (n-1) as u32), uv(h, outs[n-1])) } else { p }
    }
}

pub fn insert_unspents(
    tx: &Hashed<EvaluatedTx>,
    block_height: u64,
    unspents: &mut HashMap<Vec<u8>, UnspentValue>,
) -> (r: u64)
    requires tx.value.outputs@.len() <= u32::MAX
    ensures final(unspents).view() =~= ins_all(old(unspents).view(), tx.hash, block_height, tx.value.outputs@, tx.value.outputs@.len() as int)
{
    let mut count = 0;
    for i in 0..tx.value.outputs.len()
        invariant
            tx.value.outputs@.len() <= u32::MAX,
            count <= i,
            unspents.view() =~= ins_all(old(unspents).view(), tx.hash, block_height, tx.value.outputs@, i as int),
    { let output = &tx.value.outputs[i];
        match &output.script.address {
            Some(address) => {
                let unspent = UnspentValue {
                    block_height,
                    address: address.clone(),
                    value: output.out.value,
                };

                let key = TxOutpoint::new(tx.hash, i as u32).to_bytes();
                unspents.insert(key, unspent);
                count += 1;
            }
            None => {
                debug!(
                    target: "callback", "Ignoring invalid utxo in: {} ({})",
                    &tx.hash,
                    output.script.pattern
                );
            }
        }
    }
    count
}
} // verus!
fn main() {}
