use vstd::prelude::*;
verus! {
pub struct Error;
pub type Result<T> = core::result::Result<T, Error>;
pub struct Cursor<'a> { pub data: &'a [u8], pub pos: usize }
impl<'a> Cursor<'a> {
    #[verifier::external_body]
    pub fn read_u8(&mut self) -> (r: Result<u8>)
        requires old(self).pos <= old(self).data@.len(),
        ensures final(self).data@ == old(self).data@,
            match r {
                Ok(b) => old(self).pos < old(self).data@.len() && b == old(self).data@[old(self).pos as int] && final(self).pos == old(self).pos + 1,
                Err(_) => old(self).pos >= old(self).data@.len() && final(self).pos == old(self).pos,
            },
    { unimplemented!() }
}

// Bitcoin Core ReadVarInt, mathematically (no width limit)
pub open spec fn vi(s: Seq<u8>, pos: int, acc: int) -> Option<(int, int)>
    decreases s.len() - pos
{
    if pos < 0 || pos >= s.len() { None } else {
        let c = s[pos] as int; let n = acc * 128 + c % 128;
        if c >= 128 { vi(s, pos + 1, n + 1) } else { Some((n, pos + 1)) }
    }
}
// every accumulator on the way fits u64 (well-formed: value < 2^64)
pub open spec fn fits(s: Seq<u8>, pos: int, acc: int) -> bool
    decreases s.len() - pos
{
    if pos < 0 || pos >= s.len() { true } else {
        let c = s[pos] as int; let n = acc * 128 + c % 128;
        acc <= 0x1ff_ffff_ffff_ffff && (if c >= 128 { n < 0xffff_ffff_ffff_ffff && fits(s, pos + 1, n + 1) } else { true })
    }
}

proof fn step(n: u64, c: u8)
    requires n <= 0x1ff_ffff_ffff_ffffu64
    ensures ((n << 7) | ((c & 0x7F) as u64)) == n * 128 + (c % 128) as u64, (c & 0x80 > 0) == (c >= 128)
{
    assert(((n << 7) | ((c & 0x7F) as u64)) == n * 128 + (c % 128) as u64) by(bit_vector) requires n <= 0x1ff_ffff_ffff_ffffu64;
    assert((c & 0x80 > 0) == (c >= 128)) by(bit_vector);
}

fn read_varint(reader: &mut Cursor<'_>) -> (r: Result<u64>)
    requires old(reader).pos <= old(reader).data@.len(), fits(old(reader).data@, old(reader).pos as int, 0),
    ensures
        final(reader).data@ == old(reader).data@,
        match vi(old(reader).data@, old(reader).pos as int, 0) {
            Some((v, p)) => r is Ok && r->Ok_0 == v && final(reader).pos == p,
            None => r is Err,
        },
{
    let mut n = 0;
    loop
        invariant_except_break
            vi(old(reader).data@, old(reader).pos as int, 0) == vi(reader.data@, reader.pos as int, n as int),
            fits(reader.data@, reader.pos as int, n as int),
        invariant
            reader.pos <= reader.data@.len(), reader.data@ == old(reader).data@,
            old(reader).pos <= reader.pos,
        ensures
            vi(old(reader).data@, old(reader).pos as int, 0) == Some((n as int, reader.pos as int)),
        decreases reader.data@.len() - reader.pos,
    {
        let ch_data = reader.read_u8()?;
        assert(u64::MAX >> 7 == 0x1ff_ffff_ffff_ffffu64) by(bit_vector);
        if n > u64::MAX >> 7 {
            panic!("size too large");
        }
        proof { step(n, ch_data); }
        n = (n << 7) | (ch_data & 0x7F) as u64;
        if ch_data & 0x80 > 0 {
            if n == u64::MAX {
                panic!("size too large");
            }
            n += 1;
        } else {
            break;
        }
    }
    Ok(n)
}
} // verus!
fn main() {}
