use vstd::prelude::*;
macro_rules! format { ($($t:tt)*) => { crate::fmt_shim() } }
verus! {
global size_of usize == 8;
pub struct Error;
pub type Result<T> = core::result::Result<T, Error>;
#[verifier::external_body]
pub fn fmt_shim() -> String { String::new() }
impl From<String> for Error { #[verifier::external_body] fn from(s: String) -> Error { Error } }
impl From<&str> for Error { #[verifier::external_body] fn from(s: &str) -> Error { Error } }
pub struct Block { pub h: u64 }
pub struct CoinType { pub v: u8 }
pub struct BlockIndexRecord { pub blk_index: u64, pub data_offset: u64 }
pub struct BlkFile { pub open: bool }
impl BlkFile {
    #[verifier::external_body]
    pub fn read_block(&mut self, offset: u64, coin: &CoinType) -> (r: Result<Block>) { unimplemented!() }
    pub fn close(&mut self) ensures !final(self).open { self.open = false; }
}
pub struct ChainIndex { pub x: u64 }
impl ChainIndex {
    #[verifier::external_body]
    pub fn get(&self, height: u64) -> (r: Option<&BlockIndexRecord>) { unimplemented!() }
    #[verifier::external_body]
    pub fn max_height_by_blk(&self, blk_index: u64) -> (r: u64) { unimplemented!() }
}
#[verifier::external_body]
#[verifier::reject_recursive_types(K)]
#[verifier::reject_recursive_types(V)]
pub struct HashMap<K, V> { inner: std::collections::HashMap<K, V> }
impl<K, V> HashMap<K, V> {
    #[verifier::external_body]
    pub fn get_mut(&mut self, k: &K) -> (r: Option<&mut V>) { unimplemented!() }
}
pub struct ChainStorage {
    pub chain_index: ChainIndex,
    pub blk_files: HashMap<u64, BlkFile>,
    pub coin: CoinType,
    pub verify: bool,
}
impl ChainStorage {
    pub fn get_block(&mut self, height: u64) -> Result<Option<Block>> {
        // Read block
        let block_meta = match self.chain_index.get(height) {
            Some(block_meta) => block_meta,
            None => return Ok(None),
        };

        let blk_file = match self.blk_files.get_mut(&block_meta.blk_index) {
            Some(blk_file) => blk_file,
            None => {
                return Err("Block file for block not found".into());
            }
        };
        let block = match blk_file.read_block(block_meta.data_offset, &self.coin) {
            Ok(block) => block,
            Err(e) => {
                return Err(format!("Unable to read block: {}", e).into());
            }
        };

        // Check if blk file can be closed
        if height >= self.chain_index.max_height_by_blk(block_meta.blk_index) {
            blk_file.close()
        }

        if self.verify {
            self.verify(&block, height)?;
        }

        Ok(Some(block))
    }
    #[verifier::external_body]
    fn verify(&self, block: &Block, height: u64) -> Result<()> { unimplemented!() }
}
} // verus!
fn main() {}
