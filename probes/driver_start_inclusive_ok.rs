use vstd::prelude::*;
verus! {
pub struct Error;
pub type Result<T> = core::result::Result<T, Error>;
pub struct Block { pub h: u64 }
pub mod process { #[verifier::external_body] pub fn exit(code: i32) -> ! { std::process::exit(code) } }

pub open spec fn heights(a: int, b: int) -> Seq<u64>
    decreases b - a
{ if b <= a { Seq::empty() } else { heights(a, b - 1).push((b - 1) as u64) } }

pub struct ChainStorage { pub maxh: u64, pub present: Ghost<Set<u64>> }
impl ChainStorage {
    #[verifier::external_body]
    pub fn get_block(&mut self, height: u64) -> (r: Result<Option<Block>>)
        ensures *final(self) == *old(self),
          match r { Ok(Some(b)) => old(self).present@.contains(height), Ok(None) => !old(self).present@.contains(height), Err(_) => true }
    { unimplemented!() }
    pub const fn max_height(&self) -> (r: u64) ensures r == self.maxh { self.maxh }
}
pub struct Callback { pub log: Ghost<Seq<u64>>, pub started: Ghost<Option<u64>>, pub completed: Ghost<Option<u64>> }
pub struct BlockchainParser { pub chain_storage: ChainStorage, pub callback: Callback, pub cur_height: u64 }

impl BlockchainParser {
    #[verifier::external_body]
    fn on_start(&mut self, height: u64) -> (r: Result<()>)
        ensures final(self).chain_storage == old(self).chain_storage, final(self).cur_height == old(self).cur_height,
           final(self).callback.log@ == old(self).callback.log@, final(self).callback.completed@ == old(self).callback.completed@,
           r is Ok ==> final(self).callback.started@ == Some(height)
    { unimplemented!() }
    #[verifier::external_body]
    fn on_block(&mut self, block: &Block, height: u64) -> (r: Result<()>)
        ensures final(self).chain_storage == old(self).chain_storage, final(self).cur_height == old(self).cur_height,
           final(self).callback.started@ == old(self).callback.started@, final(self).callback.completed@ == old(self).callback.completed@,
           r is Ok ==> final(self).callback.log@ == old(self).callback.log@.push(height)
    { unimplemented!() }
    #[verifier::external_body]
    fn on_complete(&mut self, height: u64) -> (r: Result<()>)
        ensures final(self).chain_storage == old(self).chain_storage, final(self).cur_height == old(self).cur_height,
           final(self).callback.log@ == old(self).callback.log@, final(self).callback.started@ == old(self).callback.started@,
           r is Ok ==> final(self).callback.completed@ == Some(height)
    { unimplemented!() }

    pub fn start(&mut self) -> (r: Result<()>)
        requires old(self).callback.log@.len() == 0,
                 old(self).chain_storage.maxh < u64::MAX,
                 // index holds every height of the range (assumed from ChainIndex::new)
                 forall|h: u64| old(self).cur_height <= h <= old(self).chain_storage.maxh ==> old(self).chain_storage.present@.contains(h),
        ensures r is Ok ==> {
            &&& final(self).callback.started@ == Some(old(self).cur_height)
            &&& final(self).callback.log@ =~= heights(old(self).cur_height as int, old(self).chain_storage.maxh as int + 1)
        },
    {
        let ghost s0 = self.cur_height as int;
        let ghost m = self.chain_storage.maxh as int;
        self.on_start(self.cur_height)?;

        for height in iter: self.cur_height..self.chain_storage.max_height() + 1
            invariant
                self.chain_storage == old(self).chain_storage,
                self.callback.started@ == Some(old(self).cur_height),
                s0 == old(self).cur_height, m == old(self).chain_storage.maxh,
                forall|h: u64| s0 <= h <= m ==> self.chain_storage.present@.contains(h),
                self.callback.log@ =~= heights(s0, s0 + iter.index@),
                self.cur_height == s0 + iter.index@,
                iter.snapshot.start == s0, iter.snapshot.end == m + 1,
                iter.seq().len() == (if m + 1 >= s0 { m + 1 - s0 } else { 0 }),
            ensures
                self.callback.log@ =~= heights(s0, m + 1),
        {
            assert(height == s0 + iter.index@);
            assert(height <= m);
            let block = match self.chain_storage.get_block(height) {
                Ok(block) => match block {
                    Some(block) => block,
                    None => break,
                },
                Err(e) => {
                    process::exit(1);
                }
            };
            self.on_block(&block, height)?;
            self.cur_height = height + 1;
        }

        self.on_complete(self.cur_height.saturating_sub(1))
    }
}
} // verus!
fn main() {}
