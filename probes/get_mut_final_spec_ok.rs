use vstd::prelude::*;
verus! {
pub struct F { pub open: bool, pub id: u64 }
impl F { pub fn close(&mut self) ensures !final(self).open, final(self).id == old(self).id { self.open = false; } }

#[verifier::external_body]
pub struct M { inner: Vec<F> }
impl M {
    pub uninterp spec fn view(&self) -> Map<u64, F>;
    #[verifier::external_body]
    pub fn get_mut(&mut self, k: &u64) -> (r: Option<&mut F>)
        ensures
            match r {
                Some(f) => old(self).view().contains_key(*k) && *f == old(self).view()[*k]
                           && final(self).view() == old(self).view().insert(*k, *final(f)),
                None => !old(self).view().contains_key(*k) && final(self).view() == old(self).view(),
            }
    { unimplemented!() }
}

fn close_one(m: &mut M, k: u64)
    requires old(m).view().contains_key(k)
    ensures final(m).view().contains_key(k), !final(m).view()[k].open,
        forall|j: u64| j != k && old(m).view().contains_key(j) ==> final(m).view()[j] == old(m).view()[j]
{
    match m.get_mut(&k) {
        Some(f) => { f.close(); }
        None => {}
    }
}
} // verus!
fn main() {}
