use vstd::prelude::*;
verus! {
global size_of usize == 8;
pub mod std_axioms {
    use vstd::prelude::*;
    use vstd::std_specs::convert::FromSpec;
    pub broadcast proof fn axiom_vec_from_slice_obeys()
        ensures #[trigger] <Vec<u8> as FromSpec<&[u8]>>::obeys_from_spec(),
    { admit(); }
    pub broadcast proof fn axiom_vec_from_slice(s: &[u8])
        ensures (#[trigger] <Vec<u8> as FromSpec<&[u8]>>::from_spec(s))@ == s@,
    { admit(); }
}
broadcast use {std_axioms::axiom_vec_from_slice, std_axioms::axiom_vec_from_slice_obeys};

#[derive(Clone, Copy, PartialEq, Eq, Structural)]
pub struct Opcode { pub code: u8 }
#[derive(Clone, Copy, PartialEq, Eq, Structural)]
pub enum Class { PushNum(i32), PushBytes(u32), ReturnOp, SuccessOp, IllegalOp, NoOp, Ordinary(u8) }
#[derive(Clone, Copy)]
pub enum ClassifyContext { Legacy, TapScript }
pub enum ScriptError { UnexpectedEof, InvalidFormat }
pub enum ScriptPattern { NotRecognised, OpReturn(String) }

pub uninterp spec fn class_of(b: u8) -> Class;
pub open spec fn class_wf() -> bool {
    forall|b: u8| (#[trigger] class_of(b) matches Class::PushBytes(n) ==> n == b && b <= 75)
        && (b <= 75 ==> class_of(b) == Class::PushBytes(b as u32))
}

impl Opcode {
    #[verifier::external_body]
    pub fn from(b: u8) -> (r: Opcode) ensures r.code == b { Opcode { code: b } }
    #[verifier::external_body]
    pub fn classify(self, ctx: ClassifyContext) -> (r: Class) ensures r == class_of(self.code), class_wf() { unimplemented!() }
}

pub enum StackElement { Op(Opcode), Data(Vec<u8>) }
pub enum Tok { Op(u8), Data(Seq<u8>) }
pub open spec fn tok_of(e: StackElement) -> Tok {
    match e { StackElement::Op(o) => Tok::Op(o.code), StackElement::Data(d) => Tok::Data(d@) }
}
pub open spec fn toks_of(es: Seq<StackElement>) -> Seq<Tok> { es.map_values(|e: StackElement| tok_of(e)) }

pub open spec fn pow256(k: int) -> int decreases k { if k <= 0 { 1 } else { 256 * pow256(k - 1) } }
pub open spec fn le(s: Seq<u8>, n: int) -> int decreases n { if n <= 0 { 0 } else { le(s, n - 1) + (s[n - 1] as int) * pow256(n - 1) } }
pub open spec fn len_width(b: u8) -> int { if b == 0x4c { 1 } else if b == 0x4d { 2 } else if b == 0x4e { 4 } else { 0 } }

// Bitcoin push rules: (payload length, number of length bytes) at ip, None if the length bytes are cut off
pub open spec fn push_at(b: Seq<u8>, ip: int) -> Option<(int, int)> {
    let op = b[ip]; let w = len_width(op);
    if op <= 75 { Some((op as int, 0)) }
    else if w > 0 { if ip + 1 + w <= b.len() { Some((le(b.subrange(ip + 1, b.len() as int), w), w)) } else { None } }
    else { Some((0, 0)) }
}
pub open spec fn toks(b: Seq<u8>, ip: int) -> Option<Seq<Tok>>
    decreases b.len() - ip
{
    if ip < 0 || ip >= b.len() { Some(Seq::empty()) }
    else {
        match push_at(b, ip) {
            None => None,
            Some((l, w)) => {
                let start = ip + 1 + w;
                if l > 0 {
                    if start + l <= b.len() {
                        match toks(b, start + l) { Some(rest) => Some(seq![Tok::Data(b.subrange(start, start + l))] + rest), None => None }
                    } else { None }
                } else if l < 0 { None }
                else if class_of(b[ip]) == Class::NoOp { toks(b, start) }
                else { match toks(b, start) { Some(rest) => Some(seq![Tok::Op(b[ip])] + rest), None => None } }
            }
        }
    }
}

pub struct Stack { pub pattern: ScriptPattern, pub elements: Vec<StackElement> }
pub struct ScriptEvaluator<'a> { pub bytes: &'a [u8], pub n_bytes: usize, pub ip: usize }

impl<'a> ScriptEvaluator<'a> {
    #[verifier::external_body]
    pub fn eval_script_pattern(elements: &[StackElement]) -> ScriptPattern { unimplemented!() }

    // contract proved separately on the repaired body (probe maybe_push_data_repaired_ok.rs)
    #[verifier::external_body]
    pub fn maybe_push_data(&mut self, opcode: Opcode, opcode_class: Class) -> (r: Result<usize, ScriptError>)
        requires
            old(self).n_bytes == old(self).bytes@.len(), old(self).ip < old(self).n_bytes, old(self).n_bytes <= u32::MAX,
            opcode.code == old(self).bytes@[old(self).ip as int], opcode_class == class_of(opcode.code), class_wf(),
        ensures
            final(self).n_bytes == old(self).n_bytes, final(self).bytes == old(self).bytes,
            match push_at(old(self).bytes@, old(self).ip as int) {
                Some((l, w)) => r is Ok && r->Ok_0 == l && l <= u32::MAX && final(self).ip == old(self).ip + w,
                None => r matches Err(ScriptError::UnexpectedEof),
            },
    { unimplemented!() }

    pub fn eval(&mut self) -> (r: Result<Stack, ScriptError>)
        requires old(self).n_bytes == old(self).bytes@.len(), old(self).ip == 0, old(self).n_bytes <= u32::MAX,
        ensures
            match toks(old(self).bytes@, 0) {
                Some(t) => r is Ok && toks_of(r->Ok_0.elements@) =~= t,
                None => r matches Err(ScriptError::UnexpectedEof),
            },
    {
        let mut elements = Vec::with_capacity(10);
        let ghost b = self.bytes@;
        while self.ip < self.n_bytes
            invariant
                self.n_bytes == self.bytes@.len(), self.bytes@ == b, b == old(self).bytes@, self.n_bytes <= u32::MAX,
                self.ip <= self.n_bytes,
                toks(b, 0) == (match toks(b, self.ip as int) { Some(rest) => Some(toks_of(elements@) + rest), None => None::<Seq<Tok>> }),
            decreases self.n_bytes - self.ip,
        {
            let ghost ip0 = self.ip as int;
            let ghost es0 = elements@;
            let opcode = Opcode::from(self.bytes[self.ip]);
            let class = opcode.classify(ClassifyContext::Legacy);
            let data_len = self.maybe_push_data(opcode, class)?;
            self.ip += 1;

            if data_len > 0 {
                if self.ip + data_len > self.n_bytes {
                    return Err(ScriptError::UnexpectedEof);
                } else {
                    let data = Vec::from(&self.bytes[self.ip..self.ip + data_len]);
                    assert(data@ =~= b.subrange(self.ip as int, self.ip + data_len));
                    elements.push(StackElement::Data(data));
                    self.ip += data_len;
                    proof {
                        assert(toks_of(elements@) =~= toks_of(es0).push(Tok::Data(b.subrange(self.ip - data_len, self.ip as int))));
                        assert(forall|rest: Seq<Tok>| toks_of(es0) + (seq![Tok::Data(b.subrange(self.ip - data_len, self.ip as int))] + rest) =~= toks_of(elements@) + rest);
                        assert(toks(b, 0) == (match toks(b, self.ip as int) { Some(rest) => Some(toks_of(elements@) + rest), None => None::<Seq<Tok>> })); // DATA
                    }
                }
            } else if class != Class::NoOp {
                assert(class_of(b[ip0]) != Class::NoOp);
                elements.push(StackElement::Op(opcode));
                proof {
                    assert(toks_of(elements@) =~= toks_of(es0).push(Tok::Op(b[ip0])));
                    assert(forall|rest: Seq<Tok>| toks_of(es0) + (seq![Tok::Op(b[ip0])] + rest) =~= toks_of(elements@) + rest);
                    assert(toks(b, 0) == (match toks(b, self.ip as int) { Some(rest) => Some(toks_of(elements@) + rest), None => None::<Seq<Tok>> })); // OP
                }
            } else {
                proof { assert(toks(b, 0) == (match toks(b, self.ip as int) { Some(rest) => Some(toks_of(elements@) + rest), None => None::<Seq<Tok>> })); } // NOOP
            }
        }
        let pattern = ScriptEvaluator::eval_script_pattern(&elements);
        proof { assert(toks_of(elements@) + Seq::<Tok>::empty() =~= toks_of(elements@)); }
        Ok(Stack { elements, pattern })
    }
}
} // verus!
fn main() {}
