use vstd::prelude::*;

macro_rules! debug { ($($t:tt)*) => { () } }
macro_rules! format { ($($t:tt)*) => { crate::fmt_shim() } }

verus! {
global size_of usize == 8;

pub struct Error;
pub type Result<T> = core::result::Result<T, Error>;
pub mod io {
    pub type Error = super::Error;
    pub type Result<T> = core::result::Result<T, Error>;
}
#[verifier::external_body]
pub fn fmt_shim() -> String { String::new() }

impl From<String> for Error {
    #[verifier::external_body]
    fn from(s: String) -> Error { Error }
}

pub struct LittleEndian;

pub trait Read {
    spec fn rem(&self) -> Seq<u8>;

    fn read_exact(&mut self, buf: &mut [u8]) -> (r: io::Result<()>)
        ensures
            final(buf)@.len() == old(buf)@.len(),
            r is Ok ==> old(self).rem().len() >= old(buf)@.len()
                && final(buf)@ == old(self).rem().subrange(0, old(buf)@.len() as int)
                && final(self).rem() == old(self).rem().subrange(old(buf)@.len() as int, old(self).rem().len() as int),
            r is Err ==> old(self).rem().len() < old(buf)@.len();

    fn read_u64<B>(&mut self) -> (r: io::Result<u64>)
        ensures r is Ok ==> old(self).rem().len() >= 8 && final(self).rem() == old(self).rem().subrange(8, old(self).rem().len() as int);
}

pub struct VarUint { pub value: u64, pub buf: Vec<u8> }
impl VarUint {
    #[verifier::external_body]
    pub fn read_from<R: Read + ?Sized>(reader: &mut R) -> (r: io::Result<VarUint>)
        ensures r is Ok ==> final(reader).rem().len() <= old(reader).rem().len()
    { unimplemented!() }
}

pub struct TxOutput {
    pub value: u64,
    pub script_len: VarUint,
    pub script_pubkey: Vec<u8>,
}

pub trait BlockchainRead: Read {
    fn read_u8_vec(&mut self, count: u32) -> (r: Result<Vec<u8>>)
        ensures r is Ok ==> r->Ok_0@.len() == count
    {
        let mut arr = vec![0u8; count as usize];
        self.read_exact(arr.as_mut_slice())?;
        Ok(arr)
    }

    fn read_tx_outputs(&mut self, output_count: u64) -> (r: Result<Vec<TxOutput>>)
        ensures r is Ok ==> r->Ok_0@.len() == output_count
    {
        let mut outputs = Vec::with_capacity(output_count as usize);
        for _ in 0..output_count {
            let value = self.read_u64::<LittleEndian>()?;
            let script_len = VarUint::read_from(self)?;
            let script_pubkey = self.read_u8_vec(script_len.value as u32)?;
            debug!(target: "x", "hello {}", value);
            outputs.push(TxOutput {
                value,
                script_len,
                script_pubkey,
            });
        }
        Ok(outputs)
    }

    fn errdemo(&mut self, a: u64) -> Result<()> {
        if a == 0 {
            let msg = format!("bad {}", a);
            return Err(msg.into());
        }
        Ok(())
    }
}

} // verus!
fn main() {}
