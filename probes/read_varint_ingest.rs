use vstd::prelude::*;
verus! {

pub struct Error;
pub type Result<T> = core::result::Result<T, Error>;

pub struct Cursor<'a> { pub data: &'a [u8], pub pos: usize }

impl<'a> Cursor<'a> {
    pub fn read_u8(&mut self) -> (r: Result<u8>)
        requires old(self).pos <= old(self).data@.len(),
        ensures
            final(self).data@ == old(self).data@,
            match r {
                Ok(b) => old(self).pos < old(self).data@.len() && b == old(self).data@[old(self).pos as int] && final(self).pos == old(self).pos + 1,
                Err(_) => old(self).pos >= old(self).data@.len() && final(self).pos == old(self).pos,
            },
    {
        if self.pos < self.data.len() {
            let b = self.data[self.pos];
            self.pos = self.pos + 1;
            Ok(b)
        } else {
            Err(Error)
        }
    }
}

fn read_varint(reader: &mut Cursor<'_>) -> (r: Result<u64>)
    requires old(reader).pos <= old(reader).data@.len(),
{
    let mut n = 0;
    loop
        invariant reader.pos <= reader.data@.len(),
        decreases reader.data@.len() - reader.pos,
    {
        let ch_data = reader.read_u8()?;
        if n > u64::MAX >> 7 {
            panic!("size too large");
        }
        n = (n << 7) | (ch_data & 0x7F) as u64;
        if ch_data & 0x80 > 0 {
            if n == u64::MAX {
                panic!("size too large");
            }
            n += 1;
        } else {
            break;
        }
    }
    Ok(n)
}

} // verus!
fn main() {}
