use vstd::prelude::*;
verus! {
global size_of usize == 8;
pub struct Error;
pub type Result<T> = core::result::Result<T, Error>;
pub struct UnspentValue { pub block_height: u64, pub value: u64, pub address: String }
pub struct VarUint { pub value: u64 }
pub struct Tx { pub id: u64 }
pub struct Hashed<T> { pub hash: u64, pub value: T }
pub struct Block { pub tx_count: VarUint, pub txs: Vec<Hashed<Tx>> }

#[verifier::external_body]
#[verifier::reject_recursive_types(K)]
#[verifier::reject_recursive_types(V)]
pub struct HashMap<K, V> { inner: std::collections::HashMap<u64, (K, V)> }
impl<V> HashMap<Vec<u8>, V> { pub uninterp spec fn view(&self) -> Map<Seq<u8>, V>; }

pub type M = Map<Seq<u8>, UnspentValue>;
pub uninterp spec fn rm(m: M, tx: Hashed<Tx>) -> M;
pub uninterp spec fn ins(m: M, tx: Hashed<Tx>, h: u64) -> M;
pub uninterp spec fn n_in(tx: Hashed<Tx>) -> u64;
pub uninterp spec fn n_out(tx: Hashed<Tx>) -> u64;
pub open spec fn apply_txs(m: M, txs: Seq<Hashed<Tx>>, h: u64, n: int) -> M
    decreases n
{ if n <= 0 { m } else { ins(rm(apply_txs(m, txs, h, n - 1), txs[n - 1]), txs[n - 1], h) } }

pub mod common {
    use super::*;
    #[verifier::external_body]
    pub fn remove_unspents(tx: &Hashed<Tx>, unspents: &mut HashMap<Vec<u8>, UnspentValue>) -> (r: u64)
        ensures final(unspents).view() == rm(old(unspents).view(), *tx), r == n_in(*tx)
    { unimplemented!() }
    #[verifier::external_body]
    pub fn insert_unspents(tx: &Hashed<Tx>, block_height: u64, unspents: &mut HashMap<Vec<u8>, UnspentValue>) -> (r: u64)
        ensures final(unspents).view() == ins(old(unspents).view(), *tx, block_height), r == n_out(*tx)
    { unimplemented!() }
}

pub struct UnspentCsvDump {
    pub unspents: HashMap<Vec<u8>, UnspentValue>,
    pub start_height: u64, pub tx_count: u64, pub in_count: u64, pub out_count: u64,
}
impl UnspentCsvDump {
    fn on_block(&mut self, block: &Block, block_height: u64) -> (r: Result<()>)
        requires old(self).in_count < 1000, old(self).out_count < 1000, old(self).tx_count + block.tx_count.value <= u64::MAX,
            forall|i: int| 0 <= i < block.txs@.len() ==> n_in(#[trigger] block.txs@[i]) == 0 && n_out(block.txs@[i]) == 0,
        ensures final(self).unspents.view() == apply_txs(old(self).unspents.view(), block.txs@, block_height, block.txs@.len() as int),
    {
        for tx in it: &block.txs
            invariant
                self.unspents.view() == apply_txs(old(self).unspents.view(), block.txs@, block_height, it.index@ as int),
                self.in_count == old(self).in_count, self.out_count == old(self).out_count, self.tx_count == old(self).tx_count,
                it.seq().len() == block.txs@.len(),
                forall|i: int| 0 <= i < block.txs@.len() ==> it.seq()[i] == &block.txs@[i],
                forall|i: int| 0 <= i < block.txs@.len() ==> n_in(#[trigger] block.txs@[i]) == 0 && n_out(block.txs@[i]) == 0,
        {
            self.in_count += common::remove_unspents(tx, &mut self.unspents);
            self.out_count += common::insert_unspents(tx, block_height, &mut self.unspents);
        }
        self.tx_count += block.tx_count.value;
        Ok(())
    }
}
} // verus!
fn main() {}
