use vstd::prelude::*;
verus! {
global size_of usize == 8;
pub struct Error;
pub type Result<T> = core::result::Result<T, Error>;
#[derive(Clone, Copy, PartialEq, Eq, Structural)] pub struct Sha256dHash(pub [u8; 32]);
pub mod sha256d { pub use super::Sha256dHash as Hash; }
pub enum ScriptPattern { OpReturn(String), Pay2PublicKey, NotRecognised }
impl Clone for ScriptPattern {
    #[verifier::external_body]
    fn clone(&self) -> (r: Self) ensures r == *self { unimplemented!() }
}
pub struct EvaluatedScript { pub address: Option<String>, pub pattern: ScriptPattern }
pub struct TxOutput { pub value: u64 }
pub struct EvaluatedTxOut { pub script: EvaluatedScript, pub out: TxOutput }
pub struct VarUint { pub value: u64 }
pub struct EvaluatedTx { pub in_count: VarUint, pub out_count: VarUint, pub outputs: Vec<EvaluatedTxOut> }
impl EvaluatedTx {
    #[verifier::external_body] pub fn is_coinbase(&self) -> bool { unimplemented!() }
    #[verifier::external_body] pub fn to_bytes(&self) -> (r: Vec<u8>) { unimplemented!() }
}
pub struct Hashed<T> { pub hash: sha256d::Hash, pub value: T }
pub struct BlockHeader { pub timestamp: u32 }
pub struct Block { pub size: u32, pub header: Hashed<BlockHeader>, pub tx_count: VarUint, pub txs: Vec<Hashed<EvaluatedTx>> }
pub mod block { #[verifier::external_body] pub const fn get_base_reward(h: u64) -> u64 { 0 } }

#[verifier::external_body]
#[verifier::reject_recursive_types(K)]
#[verifier::reject_recursive_types(V)]
pub struct HashMap<K, V> { inner: std::collections::HashMap<u64, (K, V)> }

pub struct SimpleStats {
    pub n_valid_blocks: u64,
    pub block_sizes: Vec<u32>,
    pub n_tx: u64,
    pub n_tx_inputs: u64,
    pub n_tx_outputs: u64,
    pub n_tx_total_fee: u64,
    pub n_tx_total_volume: u64,
    pub tx_biggest_value: (u64, u64, sha256d::Hash),
    pub tx_biggest_size: (usize, u64, sha256d::Hash),
    pub t_between_blocks: Vec<u32>,
    pub last_timestamp: u32,
}

impl SimpleStats {
    #[verifier::external_body]
    fn process_tx_pattern(&mut self, script_pattern: ScriptPattern, block_height: u64, txid: sha256d::Hash, index: u32) { unimplemented!() }

    fn on_block(&mut self, block: &Block, block_height: u64) -> Result<()> {
        self.n_valid_blocks += 1;
        self.n_tx += block.tx_count.value;
        self.block_sizes.push(block.size);

        for tx in &block.txs {
            // Collect fee rewards
            if tx.value.is_coinbase() {
                self.n_tx_total_fee += tx.value.outputs[0]
                    .out
                    .value
                    .checked_sub(block::get_base_reward(block_height))
                    .unwrap_or_default();
            }

            self.n_tx_inputs += tx.value.in_count.value;
            self.n_tx_outputs += tx.value.out_count.value;

            let mut tx_value = 0;
            for i in 0..tx.value.outputs.len() { let o = &tx.value.outputs[i];
                self.process_tx_pattern(o.script.pattern.clone(), block_height, tx.hash, i as u32);
                tx_value += o.out.value;
            }
            // Calculate and save biggest value transaction
            if tx_value > self.tx_biggest_value.0 {
                self.tx_biggest_value = (tx_value, block_height, tx.hash);
            }

            self.n_tx_total_volume += tx_value;

            // Calculate and save biggest size transaction
            let tx_size = tx.value.to_bytes().len();
            if tx_size > self.tx_biggest_size.0 {
                self.tx_biggest_size = (tx_size, block_height, tx.hash);
            }
        }

        // Save time between blocks
        if self.last_timestamp > 0 {
            let diff = block
                .header
                .value
                .timestamp
                .checked_sub(self.last_timestamp)
                .unwrap_or_default();
            self.t_between_blocks.push(diff);
        }
        self.last_timestamp = block.header.value.timestamp;
        Ok(())
    }
}
} // verus!
fn main() {}
