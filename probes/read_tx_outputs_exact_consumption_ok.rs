use vstd::prelude::*;
verus! {
global size_of usize == 8;
pub struct Error;
pub type Result<T> = core::result::Result<T, Error>;
pub mod io { pub type Error = super::Error; pub type Result<T> = core::result::Result<T, Error>; }
pub struct LittleEndian;

pub open spec fn le_n(s: Seq<u8>, n: int) -> int decreases n { if n <= 0 { 0 } else { le_n(s, n - 1) + (s[n - 1] as int) * pow256(n - 1) } }
pub open spec fn pow256(k: int) -> int decreases k { if k <= 0 { 1 } else { 256 * pow256(k - 1) } }

// stream = ghost sequence of remaining bytes; exact-consumption contracts
pub trait Read {
    spec fn rem(&self) -> Seq<u8>;
    fn read_exact(&mut self, buf: &mut [u8]) -> (r: io::Result<()>)
        ensures final(buf)@.len() == old(buf)@.len(),
            r is Ok ==> old(self).rem().len() >= old(buf)@.len()
                && final(buf)@ == old(self).rem().subrange(0, old(buf)@.len() as int)
                && final(self).rem() == old(self).rem().subrange(old(buf)@.len() as int, old(self).rem().len() as int);
    fn read_u32<B>(&mut self) -> (r: io::Result<u32>)
        ensures r is Ok ==> old(self).rem().len() >= 4 && r->Ok_0 == le_n(old(self).rem(), 4)
            && final(self).rem() == old(self).rem().subrange(4, old(self).rem().len() as int);
    fn read_u64<B>(&mut self) -> (r: io::Result<u64>)
        ensures r is Ok ==> old(self).rem().len() >= 8 && r->Ok_0 == le_n(old(self).rem(), 8) && le8(r->Ok_0) == old(self).rem().subrange(0, 8)
            && final(self).rem() == old(self).rem().subrange(8, old(self).rem().len() as int);
}

pub struct VarUint { pub value: u64, pub buf: Vec<u8> }
pub uninterp spec fn compact_value(b: Seq<u8>) -> int;
pub uninterp spec fn compact_len(b: Seq<u8>) -> int;
impl VarUint {
    #[verifier::external_body]
    pub fn read_from<R: Read + ?Sized>(reader: &mut R) -> (r: io::Result<VarUint>)
        ensures r is Ok ==> {
            let v = r->Ok_0; let o = old(reader).rem();
            &&& 1 <= v.buf@.len() <= 9 && v.buf@.len() <= o.len()
            &&& v.buf@ == o.subrange(0, v.buf@.len() as int)
            &&& v.value == compact_value(v.buf@)
            &&& final(reader).rem() == o.subrange(v.buf@.len() as int, o.len() as int)
        }
    { unimplemented!() }
}

pub struct TxOutput { pub value: u64, pub script_len: VarUint, pub script_pubkey: Vec<u8> }

pub open spec fn le8(v: u64) -> Seq<u8>;   // 8-byte LE encoding (validated against to_le_bytes by Kani)
pub open spec fn txout_wire(o: TxOutput) -> Seq<u8> { le8(o.value) + o.script_len.buf@ + o.script_pubkey@ }
pub open spec fn outs_wire(os: Seq<TxOutput>, n: int) -> Seq<u8>
    decreases n
{ if n <= 0 { Seq::empty() } else { outs_wire(os, n - 1) + txout_wire(os[n - 1]) } }

pub trait BlockchainRead: Read {
    fn read_u8_vec(&mut self, count: u32) -> (r: Result<Vec<u8>>)
        ensures r is Ok ==> r->Ok_0@.len() == count && old(self).rem().len() >= count
            && r->Ok_0@ == old(self).rem().subrange(0, count as int)
            && final(self).rem() == old(self).rem().subrange(count as int, old(self).rem().len() as int)
    {
        let mut arr = vec![0u8; count as usize];
        self.read_exact(arr.as_mut_slice())?;
        Ok(arr)
    }

    fn read_tx_outputs(&mut self, output_count: u64) -> (r: Result<Vec<TxOutput>>)
        requires forall|s: Seq<u8>| #[trigger] le_n(s, 8) >= 0,  // placeholder for arithmetic facts
        ensures r is Ok ==> {
            let v = r->Ok_0@;
            &&& v.len() == output_count
            &&& old(self).rem() =~= outs_wire(v, v.len() as int) + final(self).rem()
            &&& forall|i: int| 0 <= i < v.len() ==> v[i].script_pubkey@.len() == (v[i].script_len.value as u32) as int
        }
    {
        let mut outputs = Vec::with_capacity(output_count as usize);
        let ghost o0 = self.rem();
        for _ in iter: 0..output_count
            invariant
                outputs@.len() == iter.index@,
                o0 =~= outs_wire(outputs@, outputs@.len() as int) + self.rem(),
                forall|i: int| 0 <= i < outputs@.len() ==> outputs@[i].script_pubkey@.len() == (outputs@[i].script_len.value as u32) as int,
                forall|s: Seq<u8>| #[trigger] le_n(s, 8) >= 0,
                iter.snapshot.start == 0, iter.snapshot.end == output_count,
                iter.seq().len() == output_count,
        {
            let ghost before = self.rem();
            let ghost outs0 = outputs@;
            let value = self.read_u64::<LittleEndian>()?;
            let script_len = VarUint::read_from(self)?;
            let script_pubkey = self.read_u8_vec(script_len.value as u32)?;
            outputs.push(TxOutput {
                value,
                script_len,
                script_pubkey,
            });
            proof {
                let o = outputs@[outputs@.len() - 1];
                assert(before =~= txout_wire(o) + self.rem());
                assert(outs_wire(outputs@, outputs@.len() as int) =~= outs_wire(outs0, outs0.len() as int) + txout_wire(o)) by {
                    assert(outputs@.subrange(0, outs0.len() as int) =~= outs0);
                    lemma_outs_wire_prefix(outputs@, outs0, outs0.len() as int);
                }
            }
        }
        Ok(outputs)
    }
}

pub proof fn lemma_outs_wire_prefix(a: Seq<TxOutput>, b: Seq<TxOutput>, n: int)
    requires 0 <= n <= b.len(), n <= a.len(), forall|i: int| 0 <= i < n ==> a[i] == b[i]
    ensures outs_wire(a, n) == outs_wire(b, n)
    decreases n
{
    if n > 0 { lemma_outs_wire_prefix(a, b, n - 1); }
}
} // verus!
fn main() {}
