use vstd::prelude::*;
macro_rules! info { ($($t:tt)*) => { () } }
verus! {
global size_of usize == 8;
pub struct Error;
pub type Result<T> = core::result::Result<T, Error>;
pub struct Path;
pub struct Options;
impl Options { #[verifier::external_body] pub fn default() -> Options { Options } }
pub struct DB;
pub struct DBIterator { pub pos: Ghost<int> }
impl DB {
    #[verifier::external_body] pub fn open(p: &Path, o: Options) -> (r: Result<DB>) { unimplemented!() }
    #[verifier::external_body] pub fn new_iter(&mut self) -> (r: Result<DBIterator>) { unimplemented!() }
}
impl DBIterator {
    #[verifier::external_body] pub fn advance(&mut self) -> (r: bool) { unimplemented!() }
    #[verifier::external_body] pub fn current(&self, key: &mut Vec<u8>, value: &mut Vec<u8>) -> (r: bool)
        ensures final(key)@.len() > 0
    { unimplemented!() }
}
const BLOCK_VALID_CHAIN: u64 = 4;
const BLOCK_HAVE_DATA: u64 = 8;
pub struct BlockIndexRecord { pub height: u64, pub status: u64 }
impl BlockIndexRecord {
    #[verifier::external_body] fn from(key: &[u8], values: &[u8]) -> (r: Result<Self>) { unimplemented!() }
}
#[verifier::external_body]
#[verifier::reject_recursive_types(K)]
#[verifier::reject_recursive_types(V)]
pub struct HashMap<K, V> { inner: std::collections::HashMap<K, V> }
impl<K, V> HashMap<K, V> {
    #[verifier::external_body] pub fn with_capacity(n: usize) -> (r: Self) { unimplemented!() }
    #[verifier::external_body] pub fn insert(&mut self, k: K, v: V) -> (r: Option<V>) { unimplemented!() }
    #[verifier::external_body] pub fn len(&self) -> (r: usize) { unimplemented!() }
}
#[inline]
fn is_block_index_record(data: &[u8]) -> bool
    requires data@.len() > 0
{
    *data.first().unwrap() == b'b'
}

pub fn get_block_index(path: &Path) -> Result<HashMap<u64, BlockIndexRecord>> {
    info!(target: "index", "Reading index from {} ...", path.display());

    let mut block_index = HashMap::with_capacity(900000);
    let mut db_iter = DB::open(path, Options::default())?.new_iter()?;
    let (mut key, mut value) = (vec![], vec![]);

    while db_iter.advance()
        invariant true
        decreases 0int
    {
        db_iter.current(&mut key, &mut value);
        if is_block_index_record(&key) {
            let record = BlockIndexRecord::from(&key[1..], &value)?;
            if record.status & (BLOCK_VALID_CHAIN | BLOCK_HAVE_DATA) > 0 {
                block_index.insert(record.height, record);
            }
        }
    }
    info!(target: "index", "Got longest chain with {} blocks ...", block_index.len());
    Ok(block_index)
}
} // verus!
fn main() {}
