use vstd::prelude::*;
verus! {
global size_of usize == 8;

pub mod io {
    pub struct Error;
    pub type Result<T> = core::result::Result<T, Error>;
}

pub struct Inner { pub data: Vec<u8>, pub pos: u64 }
impl Inner {
    #[verifier::external_body]
    pub fn read(&mut self, buf: &mut [u8]) -> (r: io::Result<usize>)
        ensures match r { Ok(n) => n <= old(buf)@.len() && final(buf)@.len() == old(buf)@.len(), Err(_) => true }
    { unimplemented!() }
}

pub struct XorReader {
    pub reader: Inner,
    pub xor_key: Option<Vec<u8>>,
    pub absolute_pos: u64,
}

impl XorReader {
    fn read(&mut self, buf: &mut [u8]) -> io::Result<usize> {
        let n = self.reader.read(buf)?;
        if let Some(ref xor_key) = self.xor_key {
            for i in 0..n {
                buf[i] ^= xor_key[((i as u64 + self.absolute_pos) % xor_key.len() as u64) as usize];
            }
        }
        self.absolute_pos += n as u64;
        Ok(n)
    }
}
} // verus!
fn main() {}
