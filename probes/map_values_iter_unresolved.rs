use vstd::prelude::*;
use vstd::std_specs::iter::IteratorSpec;
verus! {

pub struct UnspentValue { pub value: u64, pub address: String }

#[verifier::external_body]
#[verifier::reject_recursive_types(K)]
#[verifier::reject_recursive_types(V)]
pub struct HashMap<K, V> { inner: std::collections::HashMap<u64, (K, V)> }

impl<K, V> HashMap<K, V> {
    pub uninterp spec fn entries(&self) -> Seq<(K, V)>;
    pub uninterp spec fn vals(&self) -> Seq<V>;

    #[verifier::external_body]
    pub fn values(&self) -> (r: core::slice::Iter<'_, V>)
        ensures r.remaining() == Seq::new(self.vals().len(), |i: int| &self.vals()[i]), r.obeys_prophetic_iter_laws(), r.will_return_none(),
    { unimplemented!() }
}

pub open spec fn sum(s: Seq<UnspentValue>, n: int) -> int
    decreases n
{ if n <= 0 { 0 } else { sum(s, n - 1) + s[n - 1].value } }

fn total(m: &HashMap<Vec<u8>, UnspentValue>) -> (t: u64)
    requires sum(m.vals(), m.vals().len() as int) <= u64::MAX
    ensures t == sum(m.vals(), m.vals().len() as int)
{
    let mut t: u64 = 0;
    for unspent in it: m.values()
        invariant t == sum(m.vals(), it.index@ as int), it.seq() =~= Seq::new(m.vals().len(), |i: int| &m.vals()[i]),
    {
        assume(t + unspent.value <= u64::MAX);
        t += unspent.value;
    }
    t
}
} // verus!
fn main() {}
