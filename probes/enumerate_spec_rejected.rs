use vstd::prelude::*;
verus! {

#[verifier::reject_recursive_types(I)]
#[verifier::external_type_specification]
pub struct ExEnumerate<I>(std::iter::Enumerate<I>);

pub assume_specification<'a, T>[ <core::slice::Iter<'a, T> as Iterator>::enumerate ](it: core::slice::Iter<'a, T>) -> (r: std::iter::Enumerate<core::slice::Iter<'a, T>>);

fn f3(v: &Vec<u64>) -> (s: u64)
{
    let mut s: u64 = 0;
    for (i, x) in v.iter().enumerate() {
        s = s.wrapping_add(*x);
    }
    s
}
} // verus!
fn main() {}
