use vstd::prelude::*;
verus! {
global size_of usize == 8;
pub mod io {
    pub struct Error;
    pub type Result<T> = core::result::Result<T, Error>;
    pub enum SeekFrom { Start(u64), End(i64), Current(i64) }
}

// assumed contract of the wrapped reader (seek_bufread::BufReader<File>): a byte string + a position
pub struct Inner { pub file: Ghost<Seq<u8>>, pub pos: Ghost<int> }
impl Inner {
    #[verifier::external_body]
    pub fn read(&mut self, buf: &mut [u8]) -> (r: io::Result<usize>)
        ensures
            final(self).file@ == old(self).file@,
            final(buf)@.len() == old(buf)@.len(),
            match r {
                Ok(n) => n <= old(buf)@.len() && old(self).pos@ + n <= old(self).file@.len()
                    && final(self).pos@ == old(self).pos@ + n
                    && (forall|j: int| 0 <= j < n ==> final(buf)@[j] == old(self).file@[old(self).pos@ + j])
                    && (forall|j: int| n <= j < old(buf)@.len() ==> final(buf)@[j] == old(buf)@[j]),
                Err(_) => final(self).pos@ == old(self).pos@ && final(buf)@ == old(buf)@,
            }
    { unimplemented!() }
    #[verifier::external_body]
    pub fn seek(&mut self, pos: io::SeekFrom) -> (r: io::Result<u64>)
        ensures final(self).file@ == old(self).file@,
            match r { Ok(p) => final(self).pos@ == p, Err(_) => final(self).pos@ == old(self).pos@ }
    { unimplemented!() }
}

pub struct XorReader { pub reader: Inner, pub xor_key: Option<Vec<u8>>, pub absolute_pos: u64 }

pub open spec fn plain(file: Seq<u8>, key: Option<Vec<u8>>, i: int) -> u8 {
    match key { Some(k) => file[i] ^ k@[i % (k@.len() as int)], None => file[i] }
}

impl XorReader {
    pub open spec fn inv(&self) -> bool {
        &&& self.absolute_pos as int == self.reader.pos@
        &&& (self.xor_key matches Some(k) ==> k@.len() > 0)
        &&& self.reader.file@.len() < u64::MAX
    }

    fn read(&mut self, buf: &mut [u8]) -> (r: io::Result<usize>)
        requires old(self).inv(),
        ensures
            final(self).inv(), final(self).reader.file@ == old(self).reader.file@, final(self).xor_key == old(self).xor_key,
            final(buf)@.len() == old(buf)@.len(),
            match r {
                Ok(n) => n <= old(buf)@.len() && final(self).absolute_pos == old(self).absolute_pos + n
                    && (forall|j: int| 0 <= j < n ==> final(buf)@[j] == plain(old(self).reader.file@, old(self).xor_key, old(self).absolute_pos + j))
                    && (forall|j: int| n <= j < old(buf)@.len() ==> final(buf)@[j] == old(buf)@[j]),
                Err(_) => final(self).absolute_pos == old(self).absolute_pos,
            }
    {
        let ghost p = self.absolute_pos as int;
        let ghost f = self.reader.file@;
        let n = self.reader.read(buf)?;
        let ghost raw = buf@;
        if let Some(ref xor_key) = self.xor_key {
            for i in 0..n
                invariant
                    n <= buf@.len(), buf@.len() == raw.len(), xor_key@.len() > 0,
                    self.absolute_pos == p, p + n <= f.len(), f.len() < u64::MAX,
                    forall|j: int| 0 <= j < i ==> buf@[j] == raw[j] ^ xor_key@[(p + j) % (xor_key@.len() as int)],
                    forall|j: int| i <= j < buf@.len() ==> buf@[j] == raw[j],
            {
                buf[i] ^= xor_key[((i as u64 + self.absolute_pos) % xor_key.len() as u64) as usize];
            }
        }
        self.absolute_pos += n as u64;
        Ok(n)
    }

    fn seek(&mut self, pos: io::SeekFrom) -> (r: io::Result<u64>)
        requires old(self).inv()
        ensures final(self).reader.file@ == old(self).reader.file@, final(self).xor_key == old(self).xor_key,
            r is Ok ==> final(self).inv() && r->Ok_0 == final(self).absolute_pos,
    {
        self.absolute_pos = self.reader.seek(pos)?;
        Ok(self.absolute_pos)
    }
}
} // verus!
fn main() {}
