use vstd::prelude::*;
verus! {
global size_of usize == 8;

#[derive(Clone, Copy, PartialEq, Eq)]
pub struct Opcode { pub code: u8 }
#[derive(Clone, Copy, PartialEq, Eq)]
pub enum Class { PushNum(i32), PushBytes(u32), ReturnOp, SuccessOp, IllegalOp, NoOp, Ordinary(u8) }
pub mod all {
    use super::Opcode;
    pub const OP_PUSHDATA1: Opcode = Opcode { code: 0x4c };
    pub const OP_PUSHDATA2: Opcode = Opcode { code: 0x4d };
    pub const OP_PUSHDATA4: Opcode = Opcode { code: 0x4e };
}
pub enum ScriptError { UnexpectedEof, InvalidFormat }

pub open spec fn le(s: Seq<u8>, n: int) -> int
    decreases n
{ if n <= 0 { 0 } else { le(s, n - 1) + (s[n - 1] as int) * pow256(n - 1) } }
pub open spec fn pow256(k: int) -> int decreases k { if k <= 0 { 1 } else { 256 * pow256(k - 1) } }

// class table of rust-bitcoin (validated by Kani over all 256 opcodes)
pub open spec fn class_of(b: u8) -> Class;

// number of length bytes following a push opcode
pub open spec fn len_width(b: u8) -> int { if b == 0x4c { 1 } else if b == 0x4d { 2 } else if b == 0x4e { 4 } else { 0 } }

pub struct ScriptEvaluator<'a> { pub bytes: &'a [u8], pub n_bytes: usize, pub ip: usize }

impl<'a> ScriptEvaluator<'a> {
    #[verifier::external_body]
    pub fn read_uint(data: &[u8], size: usize) -> (r: Result<usize, ScriptError>)
        ensures
            data@.len() < size ==> r is Err,
            data@.len() >= size && size <= 4 ==> r is Ok && r->Ok_0 == le(data@, size as int),
    { unimplemented!() }

    pub fn maybe_push_data(&mut self, opcode: Opcode, opcode_class: Class) -> (r: Result<usize, ScriptError>)
        requires
            old(self).n_bytes == old(self).bytes@.len(), old(self).ip < old(self).n_bytes,
            old(self).n_bytes <= u32::MAX,
            opcode.code == old(self).bytes@[old(self).ip as int],
            opcode_class == class_of(opcode.code),
            // rust-bitcoin: PushBytes(n) exactly for opcodes 0..=75, with n == opcode
            (opcode_class matches Class::PushBytes(n) ==> n == opcode.code && opcode.code <= 75),
            (opcode.code <= 75 ==> opcode_class == Class::PushBytes(opcode.code as u32)),
        ensures
            final(self).n_bytes == old(self).n_bytes, final(self).bytes == old(self).bytes,
            ({
                let ip0 = old(self).ip as int; let w = len_width(opcode.code); let b = old(self).bytes@;
                if opcode.code <= 75 { r is Ok && r->Ok_0 == opcode.code && final(self).ip == ip0 }
                else if w > 0 {
                    if ip0 + 1 + w <= b.len() {
                        // C06: length is the LE integer in the w bytes AFTER the opcode
                        r is Ok && r->Ok_0 == le(b.subrange(ip0 + 1, b.len() as int), w) && final(self).ip == ip0 + w
                    } else { r is Err }
                } else { r is Ok && r->Ok_0 == 0 && final(self).ip == ip0 }
            }),
    {
        let data_len = if let Class::PushBytes(n) = opcode_class {
            n as usize
        } else {
            match opcode {
                all::OP_PUSHDATA1 => {
                    if self.ip + 1 > self.n_bytes {
                        return Err(ScriptError::UnexpectedEof);
                    }
                    let val = ScriptEvaluator::read_uint(&self.bytes[self.ip..], 1)?;
                    self.ip += 1;
                    val
                }
                all::OP_PUSHDATA2 => {
                    if self.ip + 2 > self.n_bytes {
                        return Err(ScriptError::UnexpectedEof);
                    }
                    let val = ScriptEvaluator::read_uint(&self.bytes[self.ip..], 2)?;
                    self.ip += 2;
                    val
                }
                all::OP_PUSHDATA4 => {
                    if self.ip + 4 > self.n_bytes {
                        return Err(ScriptError::UnexpectedEof);
                    }
                    let val = ScriptEvaluator::read_uint(&self.bytes[self.ip..], 4)?;
                    self.ip += 4;
                    val
                }
                _ => 0,
            }
        };
        Ok(data_len)
    }
}
} // verus!
fn main() {}
