// unit proto -- serialisation and hashing: VarUint::{new, From<u8|u16|u32|u64>, to_bytes} (proto/varuint.rs),
//   ToRaw for TxOutpoint / TxInput / TxOutput / EvaluatedTx (proto/tx.rs) and BlockHeader (proto/header.rs),
//   Hashed::double_sha256 (proto/mod.rs)
//@unit props=C01 safety=C01
// C01: the block hash is sha256d of the 80 header bytes, the txid sha256d of the witness-stripped
// transaction: to_bytes() of every structure equals its wire form, and double_sha256 hashes to_bytes().
use vstd::prelude::*;
verus! {
global size_of usize == 8;

//@include prelude/hashes.inc
//@include prelude/idioms.inc
//@include prelude/script_types.inc
//@include prelude/tx_types.inc
//@include prelude/wire.inc

pub open spec fn eouts_wire(s: Seq<EvaluatedTxOut>, n: int) -> Seq<u8>
    decreases n
{ if n <= 0 { Seq::empty() } else { eouts_wire(s, n - 1) + txout_wire(s[n - 1].out) } }
/// witness-stripped serialisation of an evaluated transaction (same bytes as tx_wire_nowit of the raw one)
pub open spec fn etx_wire(t: EvaluatedTx) -> Seq<u8> {
    le32(t.version) + t.in_count.buf@ + ins_wire(t.inputs@, t.inputs@.len() as int)
        + t.out_count.buf@ + eouts_wire(t.outputs@, t.outputs@.len() as int) + le32(t.locktime)
}

/// the repository's ToRaw trait, with the wire form each implementation must produce
pub trait ToRaw {
    spec fn wire(&self) -> Seq<u8>;
    /// sizes stay within machine integers (script lengths come through a u32, counts are far below 2^60)
    spec fn raw_pre(&self) -> bool;
    fn to_bytes(&self) -> (r: Vec<u8>)
        requires self.raw_pre(),
        ensures r@ == self.wire();
}

impl VarUint {
//@extract fn src/blockchain/proto/varuint.rs :: impl VarUint :: new
//@spec
        ensures r.value == value, r.buf == buf,
//@end
}

// From<u8|u16|u32|u64> for VarUint (FromSpecImpl with obeys_from_spec() == false: the contract is the `ensures` below)
impl vstd::std_specs::convert::FromSpecImpl<u8> for VarUint { open spec fn obeys_from_spec() -> bool { false } open spec fn from_spec(v: u8) -> Self { arbitrary() } }
impl vstd::std_specs::convert::FromSpecImpl<u16> for VarUint { open spec fn obeys_from_spec() -> bool { false } open spec fn from_spec(v: u16) -> Self { arbitrary() } }
impl vstd::std_specs::convert::FromSpecImpl<u32> for VarUint { open spec fn obeys_from_spec() -> bool { false } open spec fn from_spec(v: u32) -> Self { arbitrary() } }
impl vstd::std_specs::convert::FromSpecImpl<u64> for VarUint { open spec fn obeys_from_spec() -> bool { false } open spec fn from_spec(v: u64) -> Self { arbitrary() } }
impl From<u8> for VarUint {
//@extract fn src/blockchain/proto/varuint.rs :: impl From<u8> for VarUint :: from
//@vis none
//@spec
        ensures
            //# C01:compactsize_one_byte_form
            r.value == value, r.buf@ == seq![value],
//@end
}
impl From<u16> for VarUint {
//@extract fn src/blockchain/proto/varuint.rs :: impl From<u16> for VarUint :: from
//@vis none
//@idiom I7 `buf.extend(&value.to_le_bytes())`
//@idiom I11 `value.to_le_bytes()`
//@spec
        ensures
            //# C01:compactsize_fd_form
            r.value == value, r.buf@ == seq![0xfdu8] + le16(value),
//@end
}
impl From<u32> for VarUint {
//@extract fn src/blockchain/proto/varuint.rs :: impl From<u32> for VarUint :: from
//@vis none
//@idiom I7 `buf.extend(&value.to_le_bytes())`
//@idiom I11 `value.to_le_bytes()`
//@spec
        ensures
            //# C01:compactsize_fe_form
            r.value == value, r.buf@ == seq![0xfeu8] + le32(value),
//@end
}
impl From<u64> for VarUint {
//@extract fn src/blockchain/proto/varuint.rs :: impl From<u64> for VarUint :: from
//@vis none
//@idiom I7 `buf.extend(&value.to_le_bytes())`
//@idiom I11 `value.to_le_bytes()`
//@spec
        ensures
            //# C01:compactsize_ff_form
            r.value == value, r.buf@ == seq![0xffu8] + le64(value),
//@end
}

impl ToRaw for VarUint {
    open spec fn wire(&self) -> Seq<u8> { self.buf@ }
    open spec fn raw_pre(&self) -> bool { true }
//@extract fn src/blockchain/proto/varuint.rs :: impl ToRaw for VarUint :: to_bytes
//@vis none
//@end
}

impl ToRaw for TxOutpoint {
    open spec fn wire(&self) -> Seq<u8> { outpoint_wire(*self) }
    open spec fn raw_pre(&self) -> bool { true }
//@extract fn src/blockchain/proto/tx.rs :: impl ToRaw for TxOutpoint :: to_bytes
//@vis none
//@idiom I7 `bytes.extend(self.txid.as_byte_array())`
//@idiom I7 `bytes.extend(&self.index.to_le_bytes())`
//@idiom I11 `self.index.to_le_bytes()`
//@end
}

impl ToRaw for TxInput {
    open spec fn wire(&self) -> Seq<u8> { txin_wire(*self) }
    open spec fn raw_pre(&self) -> bool { self.script_len.value <= u32::MAX }
//@extract fn src/blockchain/proto/tx.rs :: impl ToRaw for TxInput :: to_bytes
//@vis none
//@idiom I7 `bytes.extend(&self.outpoint.to_bytes())`
//@idiom I7 `bytes.extend(&self.script_len.to_bytes())`
//@idiom I7 `bytes.extend(&self.script_sig)`
//@idiom I7 `bytes.extend(&self.seq_no.to_le_bytes())`
//@idiom I11 `self.seq_no.to_le_bytes()`
//@end
}

impl ToRaw for TxOutput {
    open spec fn wire(&self) -> Seq<u8> { txout_wire(*self) }
    open spec fn raw_pre(&self) -> bool { self.script_len.value <= u32::MAX }
//@extract fn src/blockchain/proto/tx.rs :: impl ToRaw for TxOutput :: to_bytes
//@vis none
//@idiom I7 `bytes.extend(&self.value.to_le_bytes())`
//@idiom I11 `self.value.to_le_bytes()`
//@idiom I7 `bytes.extend(&self.script_len.to_bytes())`
//@idiom I7 `bytes.extend(&self.script_pubkey)`
//@end
}

impl ToRaw for BlockHeader {
    open spec fn wire(&self) -> Seq<u8> { hdr_wire(*self) }
    open spec fn raw_pre(&self) -> bool { true }
//@extract fn src/blockchain/proto/header.rs :: impl ToRaw for BlockHeader :: to_bytes
//@vis none
//@idiom I7 `bytes.extend(&self.version.to_le_bytes())`
//@idiom I11 `self.version.to_le_bytes()`
//@idiom I7 `bytes.extend(self.prev_hash.as_byte_array())`
//@idiom I7 `bytes.extend(self.merkle_root.as_byte_array())`
//@idiom I7 `bytes.extend(&self.timestamp.to_le_bytes())`
//@idiom I11 `self.timestamp.to_le_bytes()`
//@idiom I7 `bytes.extend(&self.bits.to_le_bytes())`
//@idiom I11 `self.bits.to_le_bytes()`
//@idiom I7 `bytes.extend(&self.nonce.to_le_bytes())`
//@idiom I11 `self.nonce.to_le_bytes()`
//@end
}

pub proof fn lemma_ins_prefix2(a: Seq<TxInput>, n: int)
    requires 0 <= n < a.len()
    ensures ins_wire(a, n + 1) == ins_wire(a, n) + txin_wire(a[n])
{ }
pub proof fn lemma_eouts_prefix2(a: Seq<EvaluatedTxOut>, n: int)
    requires 0 <= n < a.len()
    ensures eouts_wire(a, n + 1) == eouts_wire(a, n) + txout_wire(a[n].out)
{ }

impl ToRaw for EvaluatedTx {
    open spec fn wire(&self) -> Seq<u8> { etx_wire(*self) }
    open spec fn raw_pre(&self) -> bool {
        &&& self.in_count.value + self.out_count.value + 8 <= u64::MAX
        &&& forall|k: int| 0 <= k < self.inputs@.len() ==> (#[trigger] self.inputs@[k]).script_len.value <= u32::MAX
        &&& forall|k: int| 0 <= k < self.outputs@.len() ==> (#[trigger] self.outputs@[k]).out.script_len.value <= u32::MAX
    }
//@extract fn src/blockchain/proto/tx.rs :: impl ToRaw for EvaluatedTx :: to_bytes
//@vis none
//@idiom I7 `bytes.extend(&self.version.to_le_bytes())`
//@idiom I11 `self.version.to_le_bytes()`
//@idiom I7 `bytes.extend(&self.in_count.to_bytes())`
//@idiom I7 `bytes.extend(&i.to_bytes())`
//@idiom I7 `bytes.extend(&self.out_count.to_bytes())`
//@idiom I7 `bytes.extend(&o.out.to_bytes())`
//@idiom I7 `bytes.extend(&self.locktime.to_le_bytes())`
//@idiom I11 `self.locktime.to_le_bytes()`
//@loop 1 label=it1
            invariant
                it1.seq().len() == self.inputs@.len(),
                forall|k: int| 0 <= k < self.inputs@.len() ==> it1.seq()[k] == &self.inputs@[k],
                self.raw_pre(),
                //# C01:inputs_serialised_in_order
                bytes@ == le32(self.version) + self.in_count.buf@ + ins_wire(self.inputs@, it1.index@ as int),
//@before `bytes.extend(&i`
            proof { lemma_ins_prefix2(self.inputs@, it1.index@ as int); assert(*i == self.inputs@[it1.index@ as int]); }
//@loop 2 label=it2
            invariant
                it2.seq().len() == self.outputs@.len(),
                forall|k: int| 0 <= k < self.outputs@.len() ==> it2.seq()[k] == &self.outputs@[k],
                self.raw_pre(),
                //# C01:outputs_serialised_in_order_without_witness_data
                bytes@ == le32(self.version) + self.in_count.buf@ + ins_wire(self.inputs@, self.inputs@.len() as int)
                    + self.out_count.buf@ + eouts_wire(self.outputs@, it2.index@ as int),
//@before `bytes.extend(&o`
            proof { lemma_eouts_prefix2(self.outputs@, it2.index@ as int); assert(*o == self.outputs@[it2.index@ as int]); }
//@end
}

impl<T: ToRaw> Hashed<T> {
//@extract fn src/blockchain/proto/mod.rs :: impl<T: ToRaw> Hashed<T> :: double_sha256
//@spec
        requires value.raw_pre(),
        ensures
            //# C01:hash_is_sha256d_of_the_serialisation
            r.hash.0@ == sha256d_spec(value.wire()), r.value == value,
//@end
}

// ---- evaluation wrappers: EvaluatedTxOut::eval_script, EvaluatedTx::new, From<RawTx>, Block::new -------------------
/// script::eval_from_bytes: its contract (type and address of every byte string) is proved in units script_btc /
/// script_custom; here only "the script evaluated is this output's script_pubkey, with this coin's version byte" matters
pub uninterp spec fn eval_spec(script_pubkey: Seq<u8>, version_id: u8) -> EvaluatedScript;
#[verifier::external_body]
pub fn eval_from_bytes(bytes: &[u8], version_id: u8) -> (r: EvaluatedScript) ensures r == eval_spec(bytes@, version_id) { unimplemented!() }

pub open spec fn evaluated_out(o: TxOutput, version_id: u8) -> EvaluatedTxOut {
    EvaluatedTxOut { script: eval_spec(o.script_pubkey@, version_id), out: o }
}
/// the evaluated form of a raw transaction: every field kept, every output wrapped with the evaluation of its own script
pub open spec fn is_evaluated(e: EvaluatedTx, t: RawTx) -> bool {
    &&& e.version == t.version && e.in_count == t.in_count && e.inputs == t.inputs && e.out_count == t.out_count && e.locktime == t.locktime
    &&& e.outputs@.len() == t.outputs@.len()
    &&& forall|k: int| 0 <= k < t.outputs@.len() ==> #[trigger] e.outputs@[k] == evaluated_out(t.outputs@[k], t.version_id)
}
pub proof fn lemma_eouts_eq_outs(e: Seq<EvaluatedTxOut>, o: Seq<TxOutput>, n: int)
    requires 0 <= n <= o.len(), n <= e.len(), forall|k: int| 0 <= k < n ==> (#[trigger] e[k]).out == o[k],
    ensures eouts_wire(e, n) == outs_wire(o, n),
    decreases n
{ if n > 0 { lemma_eouts_eq_outs(e, o, n - 1); } }
/// the txid pre-image of the evaluated transaction is the witness-stripped wire form of the raw one
pub proof fn lemma_etx_wire(e: EvaluatedTx, t: RawTx)
    requires is_evaluated(e, t),
    ensures etx_wire(e) == tx_wire_nowit(t),
{
    assert forall|k: int| 0 <= k < t.outputs@.len() implies (#[trigger] e.outputs@[k]).out == t.outputs@[k] by { }
    lemma_eouts_eq_outs(e.outputs@, t.outputs@, t.outputs@.len() as int);
}

impl EvaluatedTxOut {
//@extract fn src/blockchain/proto/tx.rs :: impl EvaluatedTxOut :: eval_script
//@spec
        ensures
            //# C01,C05,C06:output_keeps_its_fields_and_is_typed_by_its_own_script
            r == evaluated_out(out, version_id),
//@end
}
impl EvaluatedTx {
//@extract fn src/blockchain/proto/tx.rs :: impl EvaluatedTx :: new
//@idiom I29 `.into_par_iter()` => `Vec<EvaluatedTxOut>`
//--pre
        let ghost outs0 = xs__@;
//--inv
            invariant
                it__.seq() == outs0, v__@.len() == it__.index@,
                //# C01:outputs_evaluated_in_order_each_from_its_own_script
                forall|k: int| 0 <= k < v__@.len() ==> #[trigger] v__@[k] == evaluated_out(outs0[k], version_id),
//@spec
        ensures
            //# C01:evaluated_tx_keeps_every_field_of_the_raw_one
            is_evaluated(r, RawTx { version, in_count, inputs, out_count, outputs, locktime, version_id }),
//@end
}
impl vstd::std_specs::convert::FromSpecImpl<RawTx> for EvaluatedTx { open spec fn obeys_from_spec() -> bool { false } open spec fn from_spec(v: RawTx) -> Self { arbitrary() } }
impl From<RawTx> for EvaluatedTx {
//@extract fn src/blockchain/proto/tx.rs :: impl From<RawTx> for EvaluatedTx :: from
//@vis none
//@spec
        ensures is_evaluated(r, tx),
//@end
}

pub open spec fn raw_tx_pre(t: RawTx) -> bool {
    &&& t.in_count.value + t.out_count.value + 8 <= u64::MAX
    &&& forall|k: int| 0 <= k < t.inputs@.len() ==> (#[trigger] t.inputs@[k]).script_len.value <= u32::MAX
    &&& forall|k: int| 0 <= k < t.outputs@.len() ==> (#[trigger] t.outputs@[k]).script_len.value <= u32::MAX
}
impl Block {
//@extract fn src/blockchain/proto/block.rs :: impl Block :: new
//@idiom I29 `.into_par_iter()` => `Vec<Hashed<EvaluatedTx>>`
//--pre
        let ghost txs0 = xs__@;
//--inv
            invariant
                it__.seq() == txs0, v__@.len() == it__.index@,
                forall|k: int| 0 <= k < txs0.len() ==> raw_tx_pre(#[trigger] txs0[k]),
                //# C01:transactions_hashed_in_block_order_each_over_its_witness_stripped_form
                forall|k: int| 0 <= k < v__@.len() ==> is_evaluated((#[trigger] v__@[k]).value, txs0[k]) && v__@[k].hash.0@ == sha256d_spec(tx_wire_nowit(txs0[k])),
//--top
            let ghost raw0 = raw;
            proof { assert(raw_tx_pre(txs0[it__.index@ as int])); }
//--body
            proof { lemma_etx_wire(y__.value, raw0); }
//@spec
        requires
            //# pre:script_lengths_fit_u32   (unit reader: scripts are read through a u32 length)
            forall|k: int| 0 <= k < txs@.len() ==> raw_tx_pre(#[trigger] txs@[k]),
        ensures
            r.size == size, r.header.value == header, r.aux_pow_extension == aux_pow_extension, r.tx_count == tx_count,
            //# C01,C12:block_hash_is_sha256d_of_the_80_header_bytes
            r.header.hash.0@ == sha256d_spec(hdr_wire(header)),
            r.txs@.len() == txs@.len(),
            //# C01:txid_is_sha256d_of_the_witness_stripped_transaction
            forall|i: int| 0 <= i < txs@.len() ==> (#[trigger] r.txs@[i]).hash.0@ == sha256d_spec(tx_wire_nowit(txs@[i])) && is_evaluated(r.txs@[i].value, txs@[i]),
//@end
}

} // verus!
fn main() {}
