// unit script_custom -- src/blockchain/proto/script/custom.rs (fork-coin script evaluation)
//@unit props=C06 safety=C06,C14
// serves C06 (tokeniser, template typing, address bytes), C14 (no panic for any byte string),
//        C16 (fork-coin OP_RETURN payload)
use vstd::prelude::*;
verus! {
global size_of usize == 8;
//@extract consts src/blockchain/proto/script/custom.rs
//@end

//@include prelude/std_axioms.inc
//@include prelude/opcodes.inc
//@include prelude/script_types.inc
//@include prelude/tokens.inc

// ---- dependency shims: hashing and Base58 (trusted primitives, uninterpreted) -----------------
pub uninterp spec fn sha256d_spec(data: Seq<u8>) -> Seq<u8>;
pub uninterp spec fn hash160_spec(data: Seq<u8>) -> Seq<u8>;
pub uninterp spec fn base58_spec(data: Seq<u8>) -> Seq<char>;
pub uninterp spec fn lossy_utf8(data: Seq<u8>) -> Seq<char>;
pub broadcast axiom fn axiom_hash_lens(data: Seq<u8>)
    ensures #[trigger] sha256d_spec(data).len() == 32, #[trigger] hash160_spec(data).len() == 20;

pub mod hash160 {
    use vstd::prelude::*;
    use super::*;
    verus! {
    pub struct Hash { pub bytes: [u8; 20] }
    impl Hash {
        #[verifier::external_body]
        pub fn hash(data: &[u8]) -> (r: Hash) ensures r.bytes@ == hash160_spec(data@) { unimplemented!() }
        pub fn as_byte_array(&self) -> (r: &[u8; 20]) ensures r@ == self.bytes@ { &self.bytes }
    }
    }
}
pub mod base58 {
    use vstd::prelude::*;
    use super::*;
    verus! {
    #[verifier::external_body]
    pub fn encode(data: &[u8]) -> (r: String) ensures r@ == base58_spec(data@) { unimplemented!() }
    }
}
/// I10: `&sha256d::Hash::hash(&X)[A..B]`  (Index<Range> on the hash newtype)
#[verifier::external_body]
pub fn idiom_sha256d_slice(data: &Vec<u8>, a: usize, b: usize) -> (r: Vec<u8>)
    requires a <= b <= 32,
    ensures r@ == sha256d_spec(data@).subrange(a as int, b as int),
{ unimplemented!() }
/// I7: Vec<u8>::extend(&[u8])
#[verifier::external_body]
pub fn idiom_extend(v: &mut Vec<u8>, s: &[u8])
    ensures final(v)@ == old(v)@ + s@,
{ unimplemented!() }
/// I5: String::from_utf8_lossy(&X).into_owned()
#[verifier::external_body]
pub fn idiom_lossy(data: &Vec<u8>) -> (r: String) ensures r@ == lossy_utf8(data@) { unimplemented!() }

/// Base58Check(version || payload): the address text the property names
pub open spec fn b58check(version: u8, payload: Seq<u8>) -> Seq<char> {
    let body = seq![version] + payload;
    base58_spec(body + sha256d_spec(body).subrange(0, 4))
}

// ---- reference semantics of C06 (written from the property statement) --------------------------
pub open spec fn is_data(t: Tok) -> bool { t is Data }
pub open spec fn tpl_p2pkh(t: Seq<Tok>) -> bool {
    t.len() == 5 && t[0] == Tok::Op(0x76) && t[1] == Tok::Op(0xa9) && is_data(t[2])
        && t[3] == Tok::Op(0x88) && t[4] == Tok::Op(0xac)
}
pub open spec fn tpl_p2pk(t: Seq<Tok>) -> bool { t.len() == 2 && is_data(t[0]) && t[1] == Tok::Op(0xac) }
pub open spec fn tpl_p2sh(t: Seq<Tok>) -> bool {
    t.len() == 3 && t[0] == Tok::Op(0xa9) && is_data(t[1]) && t[2] == Tok::Op(0x87)
}
pub open spec fn tpl_opreturn(t: Seq<Tok>) -> bool { t.len() == 2 && t[0] == Tok::Op(0x6a) && is_data(t[1]) }
pub open spec fn tpl_multisig23(t: Seq<Tok>) -> bool {
    t.len() == 6 && t[0] == Tok::Op(0x52) && is_data(t[1]) && is_data(t[2]) && is_data(t[3])
        && t[4] == Tok::Op(0x53) && t[5] == Tok::Op(0xae)
}
pub open spec fn data_of(t: Tok) -> Seq<u8> { match t { Tok::Data(d) => d, Tok::Op(_) => Seq::empty() } }

/// pattern_ok(p, t): p is the script type the property assigns to token sequence t
pub open spec fn pattern_ok(p: ScriptPattern, t: Seq<Tok>) -> bool {
    if tpl_p2pkh(t) { p is Pay2PublicKeyHash }
    else if tpl_p2pk(t) { p is Pay2PublicKey }
    else if tpl_p2sh(t) { p is Pay2ScriptHash }
    else if tpl_opreturn(t) { p matches ScriptPattern::OpReturn(s) && s@ == lossy_utf8(data_of(t[1])) }
    else if tpl_multisig23(t) { p is Pay2MultiSig }
    else { p is NotRecognised }
}
/// address_ok(a, t, v): a is the address the property assigns (None for every non-address type)
pub open spec fn address_ok(a: Option<String>, t: Seq<Tok>, v: u8) -> bool {
    if tpl_p2pkh(t) { a matches Some(s) && s@ == b58check(v, data_of(t[2])) }
    else if tpl_p2pk(t) { a matches Some(s) && s@ == b58check(v, hash160_spec(data_of(t[0]))) }
    else if tpl_p2sh(t) { a matches Some(s) && s@ == b58check(5, data_of(t[1])) }
    else { a is None }
}
/// the whole of C06 for one script
pub open spec fn ref_fork_ok(res: EvaluatedScript, bytes: Seq<u8>, v: u8) -> bool {
    match toks(bytes, 0) {
        None => res.pattern is NotRecognised && res.address is None,
        Some(t) => pattern_ok(res.pattern, t) && address_ok(res.address, t, v),
    }
}

// ---- the repository's types ------------------------------------------------------------------
//@extract type src/blockchain/proto/script/custom.rs :: enum StackElement
//@end

//@extract type src/blockchain/proto/script/custom.rs :: struct Stack
//@end

//@extract type src/blockchain/proto/script/custom.rs :: struct ScriptEvaluator
//@end

pub open spec fn tok_of(e: StackElement) -> Tok {
    match e { StackElement::Op(o) => Tok::Op(o.code), StackElement::Data(d) => Tok::Data(d@) }
}
pub open spec fn toks_of(es: Seq<StackElement>) -> Seq<Tok> { es.map_values(|e: StackElement| tok_of(e)) }
/// every pushed payload came out of a script shorter than 2^32 bytes
pub open spec fn data_small(es: Seq<StackElement>) -> bool {
    forall|i: int| 0 <= i < es.len() ==> (#[trigger] es[i] matches StackElement::Data(d) ==> d@.len() <= u32::MAX)
}

/// what `==` on StackElement means (the repository's hand-written PartialEq): kinds match,
/// opcodes compare by value, data matches any data
pub open spec fn kind_eq(a: StackElement, b: StackElement) -> bool {
    match (a, b) {
        (StackElement::Op(x), StackElement::Op(y)) => x == y,
        (StackElement::Data(_), StackElement::Data(_)) => true,
        _ => false,
    }
}
impl vstd::std_specs::cmp::PartialEqSpecImpl for StackElement {
    open spec fn obeys_eq_spec() -> bool { true }
    open spec fn eq_spec(&self, other: &Self) -> bool { kind_eq(*self, *other) }
}

impl StackElement {
//@extract fn src/blockchain/proto/script/custom.rs :: impl StackElement :: data
//@spec
        ensures
            match *self {
                StackElement::Data(d) => r is Ok && r->Ok_0@ == d@,
                StackElement::Op(_) => r matches Err(ScriptError::InvalidFormat),
            },
//@end
}

impl PartialEq for StackElement {
//@extract fn src/blockchain/proto/script/custom.rs :: impl PartialEq for StackElement :: eq
//@vis none
//@ret none
//@end
}

impl<'a> ScriptEvaluator<'a> {
    pub open spec fn wf(&self) -> bool {
        self.n_bytes == self.bytes@.len() && self.n_bytes <= u32::MAX
    }

//@extract fn src/blockchain/proto/script/custom.rs :: impl<'a> ScriptEvaluator<'a> :: new
//@spec
        requires bytes@.len() <= u32::MAX,
        ensures r.wf(), r.ip == 0, r.bytes@ == bytes@,
//@end

    /// contract validated on the real body by Kani (harness custom_read_uint_*): outside Verus
    /// because of `iter().enumerate().take(size)`
    #[verifier::external_body]
    pub fn read_uint(data: &[u8], size: usize) -> (r: Result<usize, ScriptError>)
        ensures
            data@.len() < size ==> r matches Err(ScriptError::UnexpectedEof),
            data@.len() >= size && size <= 4 ==> r is Ok && r->Ok_0 == le(data@, size as int),
    { unimplemented!() }

//@extract fn src/blockchain/proto/script/custom.rs :: impl<'a> ScriptEvaluator<'a> :: maybe_push_data
//@spec
        requires
            old(self).wf(), old(self).ip < old(self).n_bytes,
            opcode.code == old(self).bytes@[old(self).ip as int],
            opcode_class == class_of(opcode.code),
        ensures
            final(self).n_bytes == old(self).n_bytes, final(self).bytes == old(self).bytes,
            //# C06:len_from_following_bytes
            match push_at(old(self).bytes@, old(self).ip as int) {
                Some((l, w)) => r is Ok && r->Ok_0 == l && l <= u32::MAX && final(self).ip == old(self).ip + w,
                None => r matches Err(ScriptError::UnexpectedEof),
            },
//@before `let data_len`
        proof { lemma_class_pushbytes(opcode.code); lemma_le_bounds(); }
//@end

//@extract fn src/blockchain/proto/script/custom.rs :: impl<'a> ScriptEvaluator<'a> :: eval
//@spec
        requires old(self).wf(), old(self).ip == 0,
        ensures
            //# C06:tokenised_by_bitcoin_push_rules
            match toks(old(self).bytes@, 0) {
                Some(t) => r is Ok && toks_of(r->Ok_0.elements@) =~= t && pattern_ok(r->Ok_0.pattern, t)
                    && data_small(r->Ok_0.elements@),
                None => r matches Err(ScriptError::UnexpectedEof),
            },
//@before `while self.ip`
        let ghost b = self.bytes@;
//@loop 1
            invariant
                self.wf(), self.bytes@ == b, b == old(self).bytes@,
                self.ip <= self.n_bytes, data_small(elements@),
                //# C06:inv_tokens_so_far
                toks(b, 0) == (match toks(b, self.ip as int) { Some(rest) => Some(toks_of(elements@) + rest), None => None::<Seq<Tok>> }),
            decreases self.n_bytes - self.ip,
//@before `let opcode =`
            let ghost ip0 = self.ip as int;
            let ghost es0 = elements@;
//@after `let data = Vec`
                    assert(data@ =~= b.subrange(self.ip as int, self.ip + data_len));
//@after `self.ip += data_len;`
                    proof {
                        assert(toks_of(elements@) =~= toks_of(es0).push(Tok::Data(b.subrange(self.ip - data_len, self.ip as int))));
                        assert(forall|rest: Seq<Tok>| toks_of(es0) + (seq![Tok::Data(b.subrange(self.ip - data_len, self.ip as int))] + rest) =~= toks_of(elements@) + rest);
                    }
//@after `elements.push(StackElement::Op`
                proof {
                    assert(toks_of(elements@) =~= toks_of(es0).push(Tok::Op(b[ip0])));
                    assert(forall|rest: Seq<Tok>| toks_of(es0) + (seq![Tok::Op(b[ip0])] + rest) =~= toks_of(elements@) + rest);
                }
//@before `let pattern =`
        proof { assert(toks_of(elements@) + Seq::<Tok>::empty() =~= toks_of(elements@)); }
//@end

//@extract fn src/blockchain/proto/script/custom.rs :: impl<'a> ScriptEvaluator<'a> :: match_stack_pattern
//@spec
        ensures
            r == (elements@.len() == pattern@.len()
                  && forall|i: int| 0 <= i < pattern@.len() ==> kind_eq(elements@[i], pattern@[i])),
//@loop 1
            invariant
                plen == pattern@.len(), elements@.len() == plen,
                forall|j: int| 0 <= j < i ==> kind_eq(elements@[j], pattern@[j]),
//@end

//@extract fn src/blockchain/proto/script/custom.rs :: impl<'a> ScriptEvaluator<'a> :: eval_script_pattern
//@idiom I5 `String::from_utf8_lossy(&data).into_owned()`
//@spec
        ensures
            //# C06:typed_by_template
            pattern_ok(r, toks_of(elements@)),
//@before `if ScriptEvaluator::match_stack_pattern(elements, &p2pkh) {`
        proof { lemma_tok_kind(elements@, p2pkh@); }
//@before `if ScriptEvaluator::match_stack_pattern(elements, &p2pk) {`
        proof { lemma_tok_kind(elements@, p2pk@); }
//@before `if ScriptEvaluator::match_stack_pattern(elements, &p2sh) {`
        proof { lemma_tok_kind(elements@, p2sh@); }
//@before `if ScriptEvaluator::match_stack_pattern(elements, &data_output) {`
        proof { lemma_tok_kind(elements@, data_output@); }
//@before `if ScriptEvaluator::match_stack_pattern(elements, &multisig_2n3) {`
        proof { lemma_tok_kind(elements@, multisig_2n3@); }
//@end
}

/// kind_eq against a pattern element, read on tokens
pub proof fn lemma_tok_kind(es: Seq<StackElement>, pat: Seq<StackElement>)
    ensures
        forall|i: int| 0 <= i < es.len() && 0 <= i < pat.len() ==> (kind_eq(es[i], #[trigger] pat[i]) <==>
            (match pat[i] { StackElement::Op(o) => toks_of(es)[i] == Tok::Op(o.code), StackElement::Data(_) => is_data(toks_of(es)[i]) })),
        toks_of(es).len() == es.len(),
{
}

//@extract fn src/blockchain/proto/script/custom.rs :: - :: eval_from_bytes_custom
//@spec
        requires bytes@.len() <= u32::MAX,
        ensures
            //# C06:script_type_and_address_equal_reference
            ref_fork_ok(r, bytes@, version_id),
            //# C06:evaluation_never_fails
            !(r.pattern is Error),
//@end

//@extract fn src/blockchain/proto/script/custom.rs :: - :: compute_stack
//@spec
        requires pattern_ok(stack.pattern, toks_of(stack.elements@)), data_small(stack.elements@),
        ensures
            r is Ok,
            pattern_ok(r->Ok_0.pattern, toks_of(stack.elements@)),
            address_ok(r->Ok_0.address, toks_of(stack.elements@), version_id),
//@end

//@extract fn src/blockchain/proto/script/custom.rs :: - :: eval_from_stack
//@spec
        requires pattern_ok(stack.pattern, toks_of(stack.elements@)), data_small(stack.elements@),
        ensures
            pattern_ok(r.pattern, toks_of(stack.elements@)),
            address_ok(r.address, toks_of(stack.elements@), version_id),
//@end

//@extract fn src/blockchain/proto/script/custom.rs :: - :: public_key_to_addr
//@spec
        requires pub_key@.len() <= u32::MAX,
        ensures
            //# C06:p2pk_address_is_base58check_of_hash160
            r@ == b58check(version, hash160_spec(pub_key@)),
//@end

//@extract fn src/blockchain/proto/script/custom.rs :: - :: hash_160_to_address
//@idiom I7 `hash.extend(h160)`
//@idiom I10 `&sha256d::Hash::hash(&hash)[0..4]`
//@idiom I7 `hash.extend(checksum)`
//@spec
        requires h160@.len() <= u32::MAX,
        ensures
            //# C06:address_is_base58check_of_version_and_payload
            r@ == b58check(version, h160@),
//@after `hash.push(version);`
    assert(hash@ =~= seq![version]);
//@end

} // verus!
fn main() {}
