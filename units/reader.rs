// unit reader -- BlockchainRead::{read_256hash, read_u8_vec, read_block, read_block_header, read_tx,
//   read_tx_outpoint, read_tx_inputs, read_tx_outputs, read_aux_pow_extension} (parser/reader.rs)
//   + VarUint::read_from (proto/varuint.rs)
//@unit props=C01,C12,C14 safety=C14,C01
// Streams are seen as the ghost sequence `rem()` of bytes not yet consumed; every read has an
// exact-consumption contract:  Ok  ==>  old.rem() == wire(result) + final.rem().
use vstd::prelude::*;
verus! {
global size_of usize == 8;
//@extract consts src/blockchain/parser/reader.rs
//@end

pub mod io {
    use vstd::prelude::*;
    verus! {
    pub struct Error;
    pub type Result<T> = core::result::Result<T, Error>;
    }
}
pub type Error = io::Error;
pub type Result<T> = core::result::Result<T, Error>;
pub struct LittleEndian;

//@include prelude/hashes.inc
//@include prelude/script_types.inc
//@include prelude/tx_types.inc

pub assume_specification<T, const N: usize> [ <[T; N]>::as_mut_slice ] (a: &mut [T; N]) -> (r: &mut [T])
    ensures r@ == old(a)@, final(a)@ == final(r)@;

//@include prelude/wire.inc

/// std::io::Read + byteorder::ReadBytesExt on a byte stream (assumed contract of std / byteorder;
/// the LE decoders are validated by Kani harnesses byteorder_*)
pub trait Read {
    spec fn rem(&self) -> Seq<u8>;
    fn read_exact(&mut self, buf: &mut [u8]) -> (r: io::Result<()>)
        ensures final(buf)@.len() == old(buf)@.len(),
            r is Ok ==> old(self).rem() =~= final(buf)@ + final(self).rem();
    fn read_u8(&mut self) -> (r: io::Result<u8>)
        ensures r is Ok ==> old(self).rem() =~= seq![r->Ok_0] + final(self).rem();
    fn read_u16<B>(&mut self) -> (r: io::Result<u16>)
        ensures r is Ok ==> old(self).rem() =~= le16(r->Ok_0) + final(self).rem();
    fn read_u32<B>(&mut self) -> (r: io::Result<u32>)
        ensures r is Ok ==> old(self).rem() =~= le32(r->Ok_0) + final(self).rem();
    fn read_u64<B>(&mut self) -> (r: io::Result<u64>)
        ensures r is Ok ==> old(self).rem() =~= le64(r->Ok_0) + final(self).rem();
}

// ---- CompactSize -----------------------------------------------------------------------------------------
/// wf(v): buf is a CompactSize encoding (1/3/5/9 bytes, non-canonical encodings included) of value
pub open spec fn varuint_wf(v: VarUint) -> bool {
    let b = v.buf@;
    ||| (b.len() == 1 && b[0] <= 0xfc && v.value == b[0])
    ||| (b.len() == 3 && b[0] == 0xfd && exists|x: u16| #[trigger] le16(x) == b.subrange(1, 3) && v.value == x)
    ||| (b.len() == 5 && b[0] == 0xfe && exists|x: u32| #[trigger] le32(x) == b.subrange(1, 5) && v.value == x)
    ||| (b.len() == 9 && b[0] == 0xff && exists|x: u64| #[trigger] le64(x) == b.subrange(1, 9) && v.value == x)
}

//@include prelude/idioms.inc

// From<u8|u16|u32|u64> for VarUint: contracts proved on the real bodies in unit proto, assumed here
impl vstd::std_specs::convert::FromSpecImpl<u8> for VarUint { open spec fn obeys_from_spec() -> bool { false } open spec fn from_spec(v: u8) -> Self { arbitrary() } }
impl vstd::std_specs::convert::FromSpecImpl<u16> for VarUint { open spec fn obeys_from_spec() -> bool { false } open spec fn from_spec(v: u16) -> Self { arbitrary() } }
impl vstd::std_specs::convert::FromSpecImpl<u32> for VarUint { open spec fn obeys_from_spec() -> bool { false } open spec fn from_spec(v: u32) -> Self { arbitrary() } }
impl vstd::std_specs::convert::FromSpecImpl<u64> for VarUint { open spec fn obeys_from_spec() -> bool { false } open spec fn from_spec(v: u64) -> Self { arbitrary() } }
impl From<u8> for VarUint { #[verifier::external_body] fn from(value: u8) -> (r: Self) ensures r.value == value, r.buf@ == seq![value] { unimplemented!() } }
impl From<u16> for VarUint { #[verifier::external_body] fn from(value: u16) -> (r: Self) ensures r.value == value, r.buf@ == seq![0xfdu8] + le16(value) { unimplemented!() } }
impl From<u32> for VarUint { #[verifier::external_body] fn from(value: u32) -> (r: Self) ensures r.value == value, r.buf@ == seq![0xfeu8] + le32(value) { unimplemented!() } }
impl From<u64> for VarUint { #[verifier::external_body] fn from(value: u64) -> (r: Self) ensures r.value == value, r.buf@ == seq![0xffu8] + le64(value) { unimplemented!() } }

impl VarUint {
//@extract fn src/blockchain/proto/varuint.rs :: impl VarUint :: new
//@spec
        ensures r.value == value, r.buf == buf,
//@end

//@extract fn src/blockchain/proto/varuint.rs :: impl VarUint :: read_from
//@spec
        ensures
            //# C01:compactsize_raw_bytes_kept_and_value_decoded
            r is Ok ==> old(reader).rem() =~= r->Ok_0.buf@ + final(reader).rem() && varuint_wf(r->Ok_0),
//@before `Ok(vint)`
        proof {
            lemma_le_lens();
            let b = vint.buf@;
            if b.len() == 3 { assert(b.subrange(1, 3) =~= le16(vint.value as u16)); }
            if b.len() == 5 { assert(b.subrange(1, 5) =~= le32(vint.value as u32)); }
            if b.len() == 9 { assert(b.subrange(1, 9) =~= le64(vint.value)); }
        }
//@end
}

pub proof fn lemma_le_lens()
    ensures forall|x: u16| #[trigger] le16(x).len() == 2, forall|x: u32| #[trigger] le32(x).len() == 4,
        forall|x: u64| #[trigger] le64(x).len() == 8,
{
    vstd::bytes::lemma_auto_spec_u16_to_from_le_bytes();
    vstd::bytes::lemma_auto_spec_u32_to_from_le_bytes();
    vstd::bytes::lemma_auto_spec_u64_to_from_le_bytes();
}

pub open spec fn input_wf(i: TxInput) -> bool { varuint_wf(i.script_len) && i.script_sig@.len() == (i.script_len.value as u32) as int }
pub open spec fn output_wf(o: TxOutput) -> bool { varuint_wf(o.script_len) && o.script_pubkey@.len() == (o.script_len.value as u32) as int }
pub open spec fn tx_wf(t: RawTx) -> bool {
    &&& varuint_wf(t.in_count) && varuint_wf(t.out_count)
    //# (counts equal lengths: "totals printed on completion equal the rows written")
    &&& t.inputs@.len() == t.in_count.value && t.outputs@.len() == t.out_count.value
    &&& forall|k: int| 0 <= k < t.inputs@.len() ==> input_wf(#[trigger] t.inputs@[k])
    &&& forall|k: int| 0 <= k < t.outputs@.len() ==> output_wf(#[trigger] t.outputs@[k])
}
// ---- the witness section (skipped by the parser, but skipped *exactly*): one stack per input, each a count and
//      that many length-prefixed items
pub struct WItem { pub len: VarUint, pub data: Seq<u8> }
pub struct WStack { pub count: VarUint, pub items: Seq<WItem> }
pub open spec fn witem_wire(i: WItem) -> Seq<u8> { i.len.buf@ + i.data }
pub open spec fn witems_wire(s: Seq<WItem>, n: int) -> Seq<u8>
    decreases n
{ if n <= 0 { Seq::empty() } else { witems_wire(s, n - 1) + witem_wire(s[n - 1]) } }
pub open spec fn wstack_wire(st: WStack) -> Seq<u8> { st.count.buf@ + witems_wire(st.items, st.items.len() as int) }
pub open spec fn wstacks_wire(s: Seq<WStack>, n: int) -> Seq<u8>
    decreases n
{ if n <= 0 { Seq::empty() } else { wstacks_wire(s, n - 1) + wstack_wire(s[n - 1]) } }
pub open spec fn witem_wf(i: WItem) -> bool { varuint_wf(i.len) && i.data.len() == (i.len.value as u32) as int }
pub open spec fn wstack_wf(st: WStack) -> bool {
    varuint_wf(st.count) && st.items.len() == st.count.value && forall|k: int| 0 <= k < st.items.len() ==> witem_wf(#[trigger] st.items[k])
}
/// the skipped bytes are exactly `n_in` well-formed witness stacks if the segwit flag is set, and nothing otherwise
pub open spec fn witness_ok(wit: Seq<u8>, n_in: int, flagged: bool) -> bool {
    if flagged { exists|ws: Seq<WStack>| #[trigger] wstacks_wire(ws, n_in) == wit && ws.len() == n_in && forall|k: int| 0 <= k < ws.len() ==> wstack_wf(#[trigger] ws[k]) }
    else { wit.len() == 0 }
}
pub proof fn lemma_witems_prefix(a: Seq<WItem>, b: Seq<WItem>, n: int)
    requires 0 <= n <= b.len(), n <= a.len(), forall|i: int| 0 <= i < n ==> a[i] == b[i]
    ensures witems_wire(a, n) == witems_wire(b, n)
    decreases n
{ if n > 0 { lemma_witems_prefix(a, b, n - 1); } }
pub proof fn lemma_wstacks_prefix(a: Seq<WStack>, b: Seq<WStack>, n: int)
    requires 0 <= n <= b.len(), n <= a.len(), forall|i: int| 0 <= i < n ==> a[i] == b[i]
    ensures wstacks_wire(a, n) == wstacks_wire(b, n)
    decreases n
{ if n > 0 { lemma_wstacks_prefix(a, b, n - 1); } }
/// opening a new (still empty) stack appends its count bytes
pub proof fn lemma_wstacks_open(ws: Seq<WStack>, c: VarUint)
    ensures wstacks_wire(ws.push(WStack { count: c, items: Seq::empty() }), ws.len() as int + 1) =~= wstacks_wire(ws, ws.len() as int) + c.buf@
{
    let n = ws.push(WStack { count: c, items: Seq::empty() });
    lemma_wstacks_prefix(n, ws, ws.len() as int);
    assert(witems_wire(Seq::<WItem>::empty(), 0) =~= Seq::<u8>::empty());
}
/// adding an item to the last stack appends the item's bytes
pub proof fn lemma_wstacks_add_item(ws: Seq<WStack>, it: WItem)
    requires ws.len() > 0
    ensures ({
        let last = ws[ws.len() - 1];
        let n = ws.update(ws.len() - 1, WStack { count: last.count, items: last.items.push(it) });
        wstacks_wire(n, n.len() as int) =~= wstacks_wire(ws, ws.len() as int) + witem_wire(it)
    })
{
    let k = ws.len() - 1;
    let last = ws[k];
    let ni = last.items.push(it);
    let n = ws.update(k, WStack { count: last.count, items: ni });
    lemma_wstacks_prefix(n, ws, k);
    lemma_witems_prefix(ni, last.items, last.items.len() as int);
    assert(witems_wire(ni, ni.len() as int) =~= witems_wire(last.items, last.items.len() as int) + witem_wire(it));
    assert(wstack_wire(n[k]) =~= wstack_wire(last) + witem_wire(it));
}

/// what read_tx consumed: version, optional segwit marker (a zero count + the flag byte), the
/// witness-free body, the witness section (present only if flag bit 0 is set), locktime
pub open spec fn tx_consumed(before: Seq<u8>, after: Seq<u8>, t: RawTx, marker: Seq<u8>, wit: Seq<u8>) -> bool {
    &&& before =~= le32(t.version) + marker + t.in_count.buf@ + ins_wire(t.inputs@, t.inputs@.len() as int)
            + t.out_count.buf@ + outs_wire(t.outputs@, t.outputs@.len() as int) + wit + le32(t.locktime) + after
    &&& (marker.len() == 0 || marker.len() >= 2)
    //# C01:witness_section_skipped_exactly  (one stack per input, present iff flag bit 0 is set)
    &&& witness_ok(wit, t.in_count.value as int, marker.len() >= 2 && marker[marker.len() - 1] & 1 == 1)
}

pub proof fn lemma_ins_prefix(a: Seq<TxInput>, b: Seq<TxInput>, n: int)
    requires 0 <= n <= b.len(), n <= a.len(), forall|i: int| 0 <= i < n ==> a[i] == b[i]
    ensures ins_wire(a, n) == ins_wire(b, n)
    decreases n
{ if n > 0 { lemma_ins_prefix(a, b, n - 1); } }
pub proof fn lemma_outs_prefix(a: Seq<TxOutput>, b: Seq<TxOutput>, n: int)
    requires 0 <= n <= b.len(), n <= a.len(), forall|i: int| 0 <= i < n ==> a[i] == b[i]
    ensures outs_wire(a, n) == outs_wire(b, n)
    decreases n
{ if n > 0 { lemma_outs_prefix(a, b, n - 1); } }

/// suffix relation used for the skipped witness section
pub open spec fn consumed_of(before: Seq<u8>, after: Seq<u8>) -> Seq<u8> { before.subrange(0, before.len() - after.len()) }
pub open spec fn is_suffix(after: Seq<u8>, before: Seq<u8>) -> bool {
    after.len() <= before.len() && before =~= consumed_of(before, after) + after
}
pub proof fn lemma_suffix_step(a: Seq<u8>, b: Seq<u8>, c: Seq<u8>, x: Seq<u8>)
    requires is_suffix(b, a), b =~= x + c,
    ensures is_suffix(c, a), consumed_of(a, c) =~= consumed_of(a, b) + x,
{
    assert(a =~= (consumed_of(a, b) + x) + c);
}

/// bookkeeping step: o0 == acc + before and before == x + after  ==>  o0 == (acc + x) + after
pub proof fn lemma_acc(o0: Seq<u8>, acc: Seq<u8>, before: Seq<u8>, x: Seq<u8>, after: Seq<u8>)
    requires o0 == acc + before, before =~= x + after,
    ensures o0 == (acc + x) + after,
{
    assert(o0 =~= (acc + x) + after);
}

// ---- coin parameters (types.rs) ---------------------------------------------------------------------
#[verifier::external_body] pub struct PathBuf { p: std::path::PathBuf }
//@extract type src/blockchain/parser/types.rs :: struct CoinType
//@end

impl MerkleBranch {
//@extract fn src/blockchain/proto/mod.rs :: impl MerkleBranch :: new
//@spec
        ensures r.hashes == hashes, r.side_mask == side_mask, r == (MerkleBranch { hashes, side_mask }),
//@end
}
pub open spec fn branch_wire(b: MerkleBranch, cnt: VarUint) -> Seq<u8> {
    cnt.buf@ + hashes_wire(b.hashes@, b.hashes@.len() as int) + le32(b.side_mask)
}
pub open spec fn branch_consumed(before: Seq<u8>, after: Seq<u8>, b: MerkleBranch) -> bool {
    exists|c: VarUint| before =~= #[trigger] branch_wire(b, c) + after && varuint_wf(c) && c.value == b.hashes@.len()
}
pub open spec fn hashes_wire(s: Seq<[u8; 32]>, n: int) -> Seq<u8>
    decreases n
{ if n <= 0 { Seq::empty() } else { hashes_wire(s, n - 1) + s[n - 1]@ } }

impl Block {
    /// Block::new: this contract is PROVED on the real body in unit proto (Block::new, EvaluatedTx::new, From<RawTx>,
    /// Hashed::double_sha256, to_bytes family; rayon's into_par_iter().map().collect() read as the ordered map it denotes, idiom I29)
    #[verifier::external_body]
    pub fn new(size: u32, header: BlockHeader, aux_pow_extension: Option<AuxPowExtension>, tx_count: VarUint, txs: Vec<RawTx>) -> (r: Block)
        ensures
            r.size == size, r.header.value == header, r.aux_pow_extension == aux_pow_extension, r.tx_count == tx_count,
            r.header.hash.0@ == sha256d_spec(hdr_wire(header)),
            r.txs@.len() == txs@.len(),
            forall|i: int| 0 <= i < txs@.len() ==> (#[trigger] r.txs@[i]).hash.0@ == sha256d_spec(tx_wire_nowit(txs@[i])),
    { unimplemented!() }
}

pub open spec fn txs_consumed(before: Seq<u8>, after: Seq<u8>, txs: Seq<RawTx>, n: int) -> bool
    decreases n
{
    if n <= 0 { before =~= after } else {
        exists|mid: Seq<u8>, marker: Seq<u8>, wit: Seq<u8>|
            txs_consumed(before, mid, txs, n - 1) && #[trigger] tx_consumed(mid, after, txs[n - 1], marker, wit)
    }
}

pub proof fn lemma_txs_prefix(before: Seq<u8>, after: Seq<u8>, a: Seq<RawTx>, b: Seq<RawTx>, n: int)
    requires 0 <= n <= a.len(), n <= b.len(), forall|i: int| 0 <= i < n ==> a[i] == b[i], txs_consumed(before, after, a, n),
    ensures txs_consumed(before, after, b, n),
    decreases n
{
    if n > 0 {
        let (mid, marker, wit) = choose|mid: Seq<u8>, marker: Seq<u8>, wit: Seq<u8>|
            txs_consumed(before, mid, a, n - 1) && #[trigger] tx_consumed(mid, after, a[n - 1], marker, wit);
        lemma_txs_prefix(before, mid, a, b, n - 1);
        assert(txs_consumed(before, mid, b, n - 1) && tx_consumed(mid, after, b[n - 1], marker, wit));
    }
}
pub proof fn lemma_txs_fold(before: Seq<u8>, mid: Seq<u8>, after: Seq<u8>, txs: Seq<RawTx>, n: int, marker: Seq<u8>, wit: Seq<u8>)
    requires n >= 1, txs_consumed(before, mid, txs, n - 1), tx_consumed(mid, after, txs[n - 1], marker, wit),
    ensures txs_consumed(before, after, txs, n),
{ }
pub proof fn lemma_hashes_prefix(a: Seq<[u8; 32]>, b: Seq<[u8; 32]>, n: int)
    requires 0 <= n <= a.len(), n <= b.len(), forall|i: int| 0 <= i < n ==> a[i] == b[i],
    ensures hashes_wire(a, n) == hashes_wire(b, n),
    decreases n
{ if n > 0 { lemma_hashes_prefix(a, b, n - 1); } }

pub open spec fn aux_consumed_w(before: Seq<u8>, after: Seq<u8>, a: AuxPowExtension, mid: Seq<u8>, marker: Seq<u8>, wit: Seq<u8>, c1: VarUint, c2: VarUint) -> bool {
    &&& tx_consumed(before, mid, a.coinbase_tx, marker, wit)
    &&& mid =~= a.block_hash.0@ + branch_wire(a.coinbase_branch, c1) + branch_wire(a.blockchain_branch, c2)
            + hdr_wire(a.parent_block) + after
}

/// the AuxPoW section: parent coinbase tx (legacy or segwit form), parent block hash, two merkle
/// branches of any length, 80-byte parent header -- consumed exactly
pub open spec fn aux_consumed(before: Seq<u8>, after: Seq<u8>, a: AuxPowExtension) -> bool {
    exists|mid: Seq<u8>, marker: Seq<u8>, wit: Seq<u8>, c1: VarUint, c2: VarUint|
        #[trigger] aux_consumed_w(before, after, a, mid, marker, wit, c1, c2)
}

/// the block layout on disk: 80-byte header, AuxPoW section iff required, tx count, transactions
pub open spec fn aux_required(coin: &CoinType, header: BlockHeader) -> bool {
    coin.aux_pow_activation_version matches Some(v) && header.version >= v
}

pub trait BlockchainRead: Read {
//@extract fn src/blockchain/parser/reader.rs :: trait BlockchainRead: Read :: read_256hash
//@vis none
//@idiom I13 `arr.borrow_mut()`
//@spec
        ensures r is Ok ==> old(self).rem() =~= r->Ok_0@ + final(self).rem(),
//@end

//@extract fn src/blockchain/parser/reader.rs :: trait BlockchainRead: Read :: read_u8_vec
//@vis none
//@idiom I13 `arr.borrow_mut()`
//@spec
        ensures
            //# C14:length_delimited_bytes_never_interpreted
            r is Ok ==> r->Ok_0@.len() == count && old(self).rem() =~= r->Ok_0@ + final(self).rem(),
//@end

//@extract fn src/blockchain/parser/reader.rs :: trait BlockchainRead: Read :: read_block_header
//@vis none
//@spec
        ensures
            //# C01:header_fields_are_the_80_bytes_on_disk
            r is Ok ==> old(self).rem() =~= hdr_wire(r->Ok_0) + final(self).rem(),
//@end

//@extract fn src/blockchain/parser/reader.rs :: trait BlockchainRead: Read :: read_tx_outpoint
//@vis none
//@spec
        ensures r is Ok ==> old(self).rem() =~= outpoint_wire(r->Ok_0) + final(self).rem(),
//@end

//@extract fn src/blockchain/parser/reader.rs :: trait BlockchainRead: Read :: read_tx_inputs
//@vis none
//@spec
        ensures
            r is Ok ==> {
                let v = r->Ok_0@;
                //# C01:input_count_equals_rows
                &&& v.len() == input_count
                //# C01:inputs_are_the_bytes_on_disk
                &&& old(self).rem() =~= ins_wire(v, v.len() as int) + final(self).rem()
                &&& forall|i: int| 0 <= i < v.len() ==> input_wf(#[trigger] v[i])
            },
//@before `for _ in 0..`
        let ghost o0 = self.rem();
//@loop 1 label=iter
            invariant
                inputs@.len() == iter.index@,
                o0 =~= ins_wire(inputs@, inputs@.len() as int) + self.rem(),
                forall|i: int| 0 <= i < inputs@.len() ==> input_wf(#[trigger] inputs@[i]),
                iter.snapshot.start == 0, iter.snapshot.end == input_count, iter.seq().len() == input_count,
//@before `let outpoint`
            let ghost before = self.rem();
            let ghost ins0 = inputs@;
//@after #1 `});`
            proof {
                let i = inputs@[inputs@.len() - 1];
                assert(before =~= txin_wire(i) + self.rem());
                assert(ins_wire(inputs@, inputs@.len() as int) =~= ins_wire(ins0, ins0.len() as int) + txin_wire(i)) by {
                    lemma_ins_prefix(inputs@, ins0, ins0.len() as int);
                }
            }
//@end

//@extract fn src/blockchain/parser/reader.rs :: trait BlockchainRead: Read :: read_tx_outputs
//@vis none
//@spec
        ensures
            r is Ok ==> {
                let v = r->Ok_0@;
                //# C01:output_count_equals_rows
                &&& v.len() == output_count
                //# C01:outputs_are_the_bytes_on_disk
                &&& old(self).rem() =~= outs_wire(v, v.len() as int) + final(self).rem()
                &&& forall|i: int| 0 <= i < v.len() ==> output_wf(#[trigger] v[i])
            },
//@before `for _ in 0..`
        let ghost o0 = self.rem();
//@loop 1 label=iter
            invariant
                outputs@.len() == iter.index@,
                o0 =~= outs_wire(outputs@, outputs@.len() as int) + self.rem(),
                forall|i: int| 0 <= i < outputs@.len() ==> output_wf(#[trigger] outputs@[i]),
                iter.snapshot.start == 0, iter.snapshot.end == output_count, iter.seq().len() == output_count,
//@before `let value = self`
            let ghost before = self.rem();
            let ghost outs0 = outputs@;
//@after #1 `});`
            proof {
                let o = outputs@[outputs@.len() - 1];
                assert(before =~= txout_wire(o) + self.rem());
                assert(outs_wire(outputs@, outputs@.len() as int) =~= outs_wire(outs0, outs0.len() as int) + txout_wire(o)) by {
                    lemma_outs_prefix(outputs@, outs0, outs0.len() as int);
                }
            }
//@end

//@extract fn src/blockchain/parser/reader.rs :: trait BlockchainRead: Read :: read_tx
//@vis none
//@spec
        ensures
            r is Ok ==> {
                let t = r->Ok_0;
                &&& tx_wf(t) && t.version_id == version_id
                //# C01:txid_preimage_is_the_witness_stripped_transaction
                &&& exists|marker: Seq<u8>, wit: Seq<u8>| #[trigger] tx_consumed(old(self).rem(), final(self).rem(), t, marker, wit)
            },
//@before `let mut flags = 0u8;`
        // ghost bookkeeping: o0 == acc + cur, cur == self.rem() between statements
        let ghost o0 = self.rem();
        let ghost mut acc: Seq<u8> = Seq::empty();
        let ghost mut cur: Seq<u8> = self.rem();
        let ghost mut marker: Seq<u8> = Seq::empty();
        proof { assert(o0 =~= acc + cur); }
//@after `let version =`
        proof { lemma_acc(o0, acc, cur, le32(version), self.rem()); acc = acc + le32(version); cur = self.rem(); }
//@after `let mut in_count`
        let ghost first_count = in_count;
        proof { lemma_acc(o0, acc, cur, in_count.buf@, self.rem()); acc = acc + in_count.buf@; cur = self.rem(); }
//@after `flags = self.read_u8()?;`
            proof { lemma_acc(o0, acc, cur, seq![flags], self.rem()); acc = acc + seq![flags]; cur = self.rem();
                    marker = first_count.buf@ + seq![flags]; }
//@before `let inputs =`
        proof {
            if first_count.value == 0 {
                lemma_acc(o0, acc, cur, in_count.buf@, self.rem());
                assert(acc + in_count.buf@ =~= le32(version) + marker + in_count.buf@);
            } else {
                assert(acc =~= le32(version) + marker + in_count.buf@);
            }
            acc = le32(version) + marker + in_count.buf@; cur = self.rem();
            assert(o0 == acc + cur);
        }
//@after `let inputs =`
        proof { let x = ins_wire(inputs@, inputs@.len() as int); lemma_acc(o0, acc, cur, x, self.rem()); acc = acc + x; cur = self.rem(); }
//@after `let out_count`
        proof { lemma_acc(o0, acc, cur, out_count.buf@, self.rem()); acc = acc + out_count.buf@; cur = self.rem(); }
//@after `let outputs =`
        proof { let x = outs_wire(outputs@, outputs@.len() as int); lemma_acc(o0, acc, cur, x, self.rem()); acc = acc + x; cur = self.rem(); }
        let ghost o_w = self.rem();
        assert(marker.len() == 0 || (marker.len() >= 2 && marker[marker.len() - 1] == flags));
        assert(marker.len() == 0 ==> flags == 0);
        assert(0u8 & 1 == 0) by(bit_vector);
        assert(is_suffix(o_w, o_w)) by { assert(consumed_of(o_w, o_w) =~= Seq::<u8>::empty()); }
        let ghost mut ws: Seq<WStack> = Seq::empty();
        assert(consumed_of(o_w, o_w) =~= wstacks_wire(ws, 0));
//@loop 1 label=it1
                invariant
                    ws.len() == it1.index@,
                    is_suffix(self.rem(), o_w), consumed_of(o_w, self.rem()) == wstacks_wire(ws, ws.len() as int),
                    forall|k: int| 0 <= k < ws.len() ==> wstack_wf(#[trigger] ws[k]),
                    it1.snapshot.start == 0, it1.snapshot.end == in_count.value, it1.seq().len() == in_count.value,
//@loop 2 label=it2
                    invariant
                        ws.len() == ws0.len() + 1, forall|k: int| 0 <= k < ws0.len() ==> ws[k] == ws0[k],
                        forall|k: int| 0 <= k < ws0.len() ==> wstack_wf(#[trigger] ws0[k]),
                        ws[ws.len() - 1].count == item_count, varuint_wf(item_count),
                        ws[ws.len() - 1].items.len() == it2.index@,
                        forall|k: int| 0 <= k < ws[ws.len() - 1].items.len() ==> witem_wf(#[trigger] ws[ws.len() - 1].items[k]),
                        is_suffix(self.rem(), o_w), consumed_of(o_w, self.rem()) == wstacks_wire(ws, ws.len() as int),
                        it2.snapshot.start == 0, it2.snapshot.end == item_count.value, it2.seq().len() == item_count.value,
//@before `let item_count`
                let ghost b1 = self.rem();
//@after `let item_count`
                let ghost ws0 = ws;
                proof {
                    lemma_suffix_step(o_w, b1, self.rem(), item_count.buf@);
                    lemma_wstacks_open(ws0, item_count);
                    ws = ws0.push(WStack { count: item_count, items: Seq::empty() });
                }
//@before `let witness_len`
                    let ghost b2 = self.rem();
                    let ghost ws1 = ws;
//@after `let witness_len`
                    proof { lemma_suffix_step(o_w, b2, self.rem(), witness_len.buf@); }
                    let ghost b3 = self.rem();
//@after `let _ = self`
                    proof {
                        let data = consumed_of(b3, self.rem());
                        assert(data.len() == (witness_len.value as u32) as int);
                        lemma_suffix_step(o_w, b3, self.rem(), data);
                        let it = WItem { len: witness_len, data: data };
                        lemma_wstacks_add_item(ws1, it);
                        let last = ws1[ws1.len() - 1];
                        ws = ws1.update(ws1.len() - 1, WStack { count: last.count, items: last.items.push(it) });
                        assert(witem_wire(it) =~= witness_len.buf@ + data);
                        assert(consumed_of(o_w, self.rem()) =~= wstacks_wire(ws1, ws1.len() as int) + witness_len.buf@ + data);
                    }
//@before `let locktime`
        let ghost wit = consumed_of(o_w, self.rem());
        proof {
            assert(flags & 1 > 0 ==> flags & 1 == 1) by(bit_vector);
            if flags & 1 > 0 {
                assert(ws.len() == in_count.value);
                assert(wstacks_wire(ws, in_count.value as int) == wit);
                assert(witness_ok(wit, in_count.value as int, true));
            } else {
                assert(wit =~= Seq::<u8>::empty());
            }
            lemma_acc(o0, acc, cur, wit, self.rem()); acc = acc + wit; cur = self.rem();
        }
//@after `let locktime`
        proof { lemma_acc(o0, acc, cur, le32(locktime), self.rem()); acc = acc + le32(locktime); cur = self.rem(); }
//@before `Ok(tx)`
        proof {
            assert(flags & 1 > 0 ==> flags & 1 == 1) by(bit_vector);
            assert(flags & 1 > 0 || flags & 1 == 0) by(bit_vector);
            assert(tx.inputs@ == inputs@ && tx.outputs@ == outputs@);
            if flags & 1 > 0 { assert(marker.len() >= 2); }
            assert(witness_ok(wit, tx.in_count.value as int, marker.len() >= 2 && marker[marker.len() - 1] & 1 == 1));
            assert(o0 == acc + self.rem());
            assert(tx_consumed(o0, self.rem(), tx, marker, wit));
        }
//@end

//@extract fn src/blockchain/parser/reader.rs :: trait BlockchainRead: Read :: read_aux_pow_extension
//@vis none
//@spec
        ensures
            //# C12:auxpow_section_consumed_exactly
            r is Ok ==> aux_consumed(old(self).rem(), final(self).rem(), r->Ok_0),
//@before `let coinbase_tx`
        let ghost o0 = self.rem();
//@after `let coinbase_tx`
        let ghost mid = self.rem();
        let ghost (marker, wit) = choose|marker: Seq<u8>, wit: Seq<u8>| tx_consumed(o0, mid, coinbase_tx, marker, wit);
//@before `let coinbase_branch`
        let ghost m1 = self.rem();
//@after `let coinbase_branch`
        let ghost c1 = choose|c: VarUint| m1 =~= #[trigger] branch_wire(coinbase_branch, c) + self.rem();
        let ghost m2 = self.rem();
//@after `let blockchain_branch`
        let ghost c2 = choose|c: VarUint| m2 =~= #[trigger] branch_wire(blockchain_branch, c) + self.rem();
        let ghost m3 = self.rem();
//@before `Ok(AuxPowExtension {`
        proof {
            assert(m3 =~= hdr_wire(parent_block) + self.rem());
            assert(mid =~= block_hash.0@ + m1);
            assert(mid =~= block_hash.0@ + branch_wire(coinbase_branch, c1) + branch_wire(blockchain_branch, c2) + hdr_wire(parent_block) + self.rem());
            let a = AuxPowExtension { coinbase_tx, block_hash, coinbase_branch, blockchain_branch, parent_block };
            assert(aux_consumed_w(o0, self.rem(), a, mid, marker, wit, c1, c2));
            assert(aux_consumed(o0, self.rem(), a));
        }
//@end

//@extract fn src/blockchain/parser/reader.rs :: trait BlockchainRead: Read :: read_txs
//@vis none
//@idiom I28 `(0..`
//--pre
        let ghost o0 = self.rem();
        assert(txs_consumed(o0, self.rem(), Seq::<RawTx>::empty(), 0));
//--inv
            invariant
                v__@.len() == i__, v__@.len() == it__.index@, it__.snapshot.start == 0, it__.snapshot.end == tx_count,
                //# C01:transactions_parsed_back_to_back_in_block_order
                txs_consumed(o0, self.rem(), v__@, i__ as int),
                forall|k: int| 0 <= k < v__@.len() ==> tx_wf(#[trigger] v__@[k]),
//--top
            let ghost old_v = v__@;
            let ghost mid0 = self.rem();
//--body
            proof {
                lemma_txs_prefix(o0, mid0, old_v, v__@, old_v.len() as int);
                let (marker, wit) = choose|marker: Seq<u8>, wit: Seq<u8>| tx_consumed(mid0, self.rem(), x__, marker, wit);
                assert(v__@[i__ as int] == x__);
                assert(txs_consumed(o0, mid0, v__@, i__ as int) && tx_consumed(mid0, self.rem(), v__@[i__ as int], marker, wit));
                lemma_txs_fold(o0, mid0, self.rem(), v__@, i__ as int + 1, marker, wit);
            }
//@spec
        ensures r is Ok ==> r->Ok_0@.len() == tx_count
            && txs_consumed(old(self).rem(), final(self).rem(), r->Ok_0@, tx_count as int)
            && forall|i: int| 0 <= i < tx_count ==> tx_wf(#[trigger] r->Ok_0@[i])
//@end

//@extract fn src/blockchain/parser/reader.rs :: trait BlockchainRead: Read :: read_merkle_branch
//@vis none
//@idiom I28 `(0..`
//--pre
        let ghost o1 = self.rem();
//--inv
            invariant
                v__@.len() == i__, v__@.len() == it__.index@, it__.snapshot.start == 0, it__.snapshot.end == branch_length.value, varuint_wf(branch_length),
                //# C12:branch_hashes_read_back_to_back
                o1 =~= hashes_wire(v__@, v__@.len() as int) + self.rem(), o0 =~= branch_length.buf@ + o1,
//--top
            let ghost old_v = v__@;
//--body
            proof { lemma_hashes_prefix(old_v, v__@, old_v.len() as int); }
//@spec
        ensures
            //# C12:merkle_branch_consumes_count_hashes_mask
            r is Ok ==> branch_consumed(old(self).rem(), final(self).rem(), r->Ok_0),
//@before `let branch_length`
        let ghost o0 = self.rem();
//@before `let side_mask`
        let ghost m2 = self.rem();
//@before `Ok(MerkleBranch`
        proof {
            let mb = MerkleBranch { hashes, side_mask };
            assert(m2 =~= le32(side_mask) + self.rem());
            assert(o0 =~= branch_length.buf@ + (hashes_wire(hashes@, hashes@.len() as int) + m2));
            assert(o0 =~= branch_wire(mb, branch_length) + self.rem());
            assert(varuint_wf(branch_length));
            assert(branch_length.value == hashes@.len());
            assert(branch_consumed(o0, self.rem(), mb));
        }
//@end

//@extract fn src/blockchain/parser/reader.rs :: trait BlockchainRead: Read :: read_block
//@vis none
//@spec
        ensures
            r is Ok ==> {
                let b = r->Ok_0;
                //# C01:blocksize_is_the_stored_length_prefix
                &&& b.size == size
                //# C12:auxpow_parsed_iff_version_at_or_above_threshold
                &&& (b.aux_pow_extension is Some <==> aux_required(coin, b.header.value))
                //# C01,C12:block_hash_is_sha256d_of_the_80_header_bytes
                &&& b.header.hash.0@ == sha256d_spec(hdr_wire(b.header.value))
                &&& old(self).rem().len() >= 80 && hdr_wire(b.header.value) =~= old(self).rem().subrange(0, 80)
                //# C01:tx_count_equals_rows
                &&& b.txs@.len() == b.tx_count.value && varuint_wf(b.tx_count)
            },
//@after `let header =`
        proof { lemma_le_lens(); assert(hdr_wire(header).len() == 80); }
//@end
}

} // verus!
fn main() {}
