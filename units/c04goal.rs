// unit c04goal -- the top-level obligation of C04 over the selection function `select` that
// get_block_index is proved (unit index) to implement.
//@unit props=C04 safety=C04
//
//   c04_active_chain_only   : the obligation taken from the property statement.  It is FALSE for the
//                             selection the code implements; Verus cannot discharge it -> recorded in
//                             known_findings.json (KNOWN-FINDING, exit 0).
//   c04_refutation_witness  : machine-checked refutation: a concrete three-pair index (active A at
//                             height 1, stale sibling B at height 1 with block data, key(B) > key(A))
//                             for which the selected record at height 1 is the stale one.
use vstd::prelude::*;
verus! {

//@include prelude/index_spec.inc

pub open spec fn is_b(r: Rec) -> bool { r.0.len() == 33 && r.0[0] == 0x62 }
pub open spec fn hash_of(r: Rec) -> Seq<u8> { r.0.subrange(1, 33) }

/// An index as Bitcoin Core leaves it: `active` is the set of block hashes on the best chain; every
/// active block has a 'b' record with block data (status has HAVE_DATA and validity >= VALID_CHAIN)
/// and at each height at most one record is active; all other 'b' records are competitors
/// (stale siblings with or without data, failed blocks, header-only records) -- ANY status.
pub open spec fn core_index(recs: Seq<Rec>, active: Set<Seq<u8>>) -> bool {
    &&& db_wf(recs)
    &&& forall|i: int| 0 <= i < recs.len() && is_b(#[trigger] recs[i]) ==> rec_of(hash_of(recs[i]), recs[i].1) is Some
    &&& forall|i: int, j: int| 0 <= i < recs.len() && 0 <= j < recs.len() && is_b(recs[i]) && is_b(recs[j])
            && active.contains(hash_of(recs[i])) && active.contains(hash_of(recs[j]))
            && rec_of(hash_of(recs[i]), recs[i].1)->Some_0.height == rec_of(hash_of(recs[j]), recs[j].1)->Some_0.height
            ==> i == j
}

/// C04: every delivered (= selected) record is an active-chain record.
pub proof fn c04_active_chain_only(recs: Seq<Rec>, active: Set<Seq<u8>>)
    requires core_index(recs, active), select(recs, recs.len() as int) is Some,
    ensures
        //# C04:active_chain_only
        forall|h: u64| (#[trigger] select(recs, recs.len() as int)->Some_0.contains_key(h))
            ==> active.contains(select(recs, recs.len() as int)->Some_0[h].hash),
{
}

pub open spec fn w_val() -> Seq<u8> { seq![1u8, 1u8, 29u8, 1u8, 0u8, 8u8] }   // version 1, height 1, status VALID_SCRIPTS|HAVE_DATA|HAVE_UNDO, 1 tx, file 0, pos 8
pub open spec fn w_key(b: u8) -> Seq<u8> { seq![0x62u8] + Seq::new(32, |i: int| b) }
pub open spec fn w_recs() -> Seq<Rec> { seq![(w_key(0), w_val()), (w_key(1), w_val())] }
pub open spec fn w_active() -> Set<Seq<u8>> { set![Seq::new(32, |i: int| 0u8)] }

pub proof fn lemma_w_rec(b: u8)
    ensures rec_of(w_key(b).subrange(1, 33), w_val()) == Some(RecSpec { hash: w_key(b).subrange(1, 33), version: 1, height: 1, status: 29, tx_count: 1, blk_index: 0, data_offset: 8 }),
        value_fits(w_val()), w_key(b).len() == 33, w_key(b)[0] == 0x62,
        w_key(b).subrange(1, 33) =~= Seq::new(32, |i: int| b),
{
    let v = w_val();
    reveal_with_fuel(vi, 2);
    reveal_with_fuel(fits, 2);
    assert(vi(v, 0, 0) == Some((1int, 1int)));
    assert(vi(v, 1, 0) == Some((1int, 2int)));
    assert(vi(v, 2, 0) == Some((29int, 3int)));
    assert(vi(v, 3, 0) == Some((1int, 4int)));
    assert(29u64 & 24u64 > 0 && 29u64 & 8u64 > 0) by(bit_vector);
    assert(has_file(29) && has_pos(29));
    assert(vi(v, 4, 0) == Some((0int, 5int)));
    assert(vi(v, 5, 0) == Some((8int, 6int)));
}

/// the refutation: a well-formed index for which C04:active_chain_only is false
pub proof fn c04_refutation_witness()
    ensures
        core_index(w_recs(), w_active()),
        select(w_recs(), 2) is Some,
        select(w_recs(), 2)->Some_0.contains_key(1u64),
        !w_active().contains(select(w_recs(), 2)->Some_0[1u64].hash),
{
    lemma_w_rec(0); lemma_w_rec(1);
    let recs = w_recs();
    let h0 = Seq::new(32, |i: int| 0u8);
    let h1 = Seq::new(32, |i: int| 1u8);
    assert(h0[0] == 0u8 && h1[0] == 1u8);
    assert(h0 != h1);
    assert(hash_of(recs[0]) =~= h0 && hash_of(recs[1]) =~= h1);
    assert(29u64 & 12u64 > 0) by(bit_vector);
    assert(status_selected(29));
    reveal_with_fuel(select, 3);
    assert(recs[0].0.subrange(1, recs[0].0.len() as int) =~= w_key(0).subrange(1, 33));
    assert(recs[1].0.subrange(1, recs[1].0.len() as int) =~= w_key(1).subrange(1, 33));
    let r0 = RecSpec { hash: w_key(0).subrange(1, 33), version: 1, height: 1, status: 29, tx_count: 1, blk_index: 0, data_offset: 8 };
    let r1 = RecSpec { hash: w_key(1).subrange(1, 33), version: 1, height: 1, status: 29, tx_count: 1, blk_index: 0, data_offset: 8 };
    assert(select(recs, 0) == Some(Map::<u64, RecSpec>::empty()));
    assert(select(recs, 1) == Some(Map::<u64, RecSpec>::empty().insert(1u64, r0)));
    assert(select(recs, 2) == Some(Map::<u64, RecSpec>::empty().insert(1u64, r0).insert(1u64, r1)));
    assert(!w_active().contains(h1));
}

} // verus!
fn main() {}
