// unit xor -- XorReader::{new, read, seek}  (src/blockchain/parser/reader.rs:186-220)
//@unit props=C11 safety=C11
// C11: an XorReader over a file that is plain[i] ^ key[i % len] (key repeating from file offset 0)
// is, for every interleaving of seeks and reads, a reader over `plain`.
use vstd::prelude::*;
verus! {
global size_of usize == 8;

pub mod io {
    use vstd::prelude::*;
    verus! {
    pub struct Error;
    pub type Result<T> = core::result::Result<T, Error>;
    pub enum SeekFrom { Start(u64), End(i64), Current(i64) }
    }
}

/// A seekable byte stream seen as (content, position).  For `seek_bufread::BufReader<File>` this is
/// the assumed contract of the dependency (C03/C11 trusted base): reads deliver the file's bytes at
/// the current position, seeks move the position and report it.
pub trait Stream {
    spec fn inv(&self) -> bool;
    spec fn file(&self) -> Seq<u8>;
    spec fn pos(&self) -> int;
    proof fn lemma_stream_bounds(&self)
        requires self.inv(),
        ensures self.file().len() <= u64::MAX, 0 <= self.pos();
}

pub trait Read: Stream {
    fn read(&mut self, buf: &mut [u8]) -> (r: io::Result<usize>)
        requires old(self).inv(),
        ensures
            final(self).file() == old(self).file(),
            final(buf)@.len() == old(buf)@.len(),
            match r {
                Ok(n) => final(self).inv() && n <= old(buf)@.len() && old(self).pos() + n <= old(self).file().len()
                    && final(self).pos() == old(self).pos() + n
                    //# C11:delivered_bytes_are_the_stream_bytes_at_pos
                    && (forall|j: int| 0 <= j < n ==> final(buf)@[j] == old(self).file()[old(self).pos() + j])
                    && (forall|j: int| n <= j < old(buf)@.len() ==> final(buf)@[j] == old(buf)@[j]),
                Err(_) => true,
            };
}

pub trait Seek: Stream {
    fn seek(&mut self, pos: io::SeekFrom) -> (r: io::Result<u64>)
        requires old(self).inv(),
        ensures
            final(self).file() == old(self).file(),
            match r {
                Ok(p) => final(self).inv() && final(self).pos() == p
                    && (pos matches io::SeekFrom::Start(x) ==> p == x),
                Err(_) => true,
            };
}

//@extract type src/blockchain/parser/reader.rs :: struct XorReader
//@end

/// de-obfuscated byte i of an obfuscated file: key repeats from file offset 0
pub open spec fn plain(file: Seq<u8>, key: Option<Vec<u8>>, i: int) -> u8 {
    match key { Some(k) => file[i] ^ k@[i % (k@.len() as int)], None => file[i] }
}

impl<R: Stream> Stream for XorReader<R> {
    /// representation invariant: tracked position == position of the wrapped reader; key non-empty
    open spec fn inv(&self) -> bool {
        &&& self.reader.inv()
        &&& self.absolute_pos as int == self.reader.pos()
        &&& (self.xor_key matches Some(k) ==> k@.len() > 0)
    }
    /// the stream an XorReader presents is the de-obfuscated file
    open spec fn file(&self) -> Seq<u8> {
        Seq::new(self.reader.file().len(), |i: int| plain(self.reader.file(), self.xor_key, i))
    }
    open spec fn pos(&self) -> int { self.absolute_pos as int }
    proof fn lemma_stream_bounds(&self) { self.reader.lemma_stream_bounds(); }
}

impl<R: Seek + Read> XorReader<R> {
//@extract fn src/blockchain/parser/reader.rs :: impl<R: Seek + Read> XorReader<R> :: new
//@spec
        ensures r.reader == reader, r.xor_key == xor_key, r.absolute_pos == 0,
//@end
}

impl<R: Read> Read for XorReader<R> {
//@extract fn src/blockchain/parser/reader.rs :: impl<R: Read> Read for XorReader<R> :: read
//@vis none
//@before `let n = self.reader.read(buf)?;`
        let ghost p = self.absolute_pos as int;
        let ghost f = self.reader.file();
        let ghost key0 = self.xor_key;
        proof { self.reader.lemma_stream_bounds(); }
//@after `let n = self.reader.read(buf)?;`
        let ghost raw = buf@;
//@loop 1
                invariant
                    n <= buf@.len(), buf@.len() == raw.len(), xor_key@.len() > 0,
                    self.absolute_pos == p, p + n <= f.len(), f.len() <= u64::MAX, 0 <= p,
                    self.xor_key == key0, key0 == Some(*xor_key),
                    self.reader.inv(), self.reader.file() == f, self.reader.pos() == p + n,
                    //# C11:inv_prefix_decoded_with_key_at_absolute_offset
                    forall|j: int| 0 <= j < i ==> buf@[j] == raw[j] ^ xor_key@[(p + j) % (xor_key@.len() as int)],
                    forall|j: int| i <= j < buf@.len() ==> buf@[j] == raw[j],
//@end
}

impl<R: Seek> Seek for XorReader<R> {
//@extract fn src/blockchain/parser/reader.rs :: impl<R: Seek> Seek for XorReader<R> :: seek
//@vis none
//@end
}

/// C11 as a statement about two data directories: if `obf` is `plain_file` XOR-ed with the key
/// repeating from offset 0, the stream presented by an XorReader over `obf` *is* `plain_file`
/// (so every contract proved for readers of plaintext files applies unchanged).
pub proof fn lemma_xor_roundtrip<R: Stream>(x: XorReader<R>, plain_file: Seq<u8>)
    requires
        x.inv(),
        x.xor_key is Some,
        x.reader.file().len() == plain_file.len(),
        forall|i: int| 0 <= i < plain_file.len() ==>
            x.reader.file()[i] == plain_file[i] ^ (x.xor_key->Some_0)@[i % ((x.xor_key->Some_0)@.len() as int)],
    ensures
        x.file() =~= plain_file,
{
    let k = (x.xor_key->Some_0)@;
    assert forall|i: int| 0 <= i < plain_file.len() implies x.file()[i] == plain_file[i] by {
        let a = plain_file[i];
        let b = k[i % (k.len() as int)];
        assert((a ^ b) ^ b == a) by(bit_vector);
    }
}
/// no key file: identity
pub proof fn lemma_no_key_is_identity<R: Stream>(x: XorReader<R>)
    requires x.inv(), x.xor_key is None,
    ensures x.file() =~= x.reader.file(),
{
}

} // verus!
fn main() {}
