// unit xor -- XorReader::{new, read, seek}  (src/blockchain/parser/reader.rs:186-220)
//@unit props=C11 safety=C11
// C11: an XorReader over a file that is plain[i] ^ key[i % len] (key repeating from file offset 0)
// is, for every interleaving of seeks and reads, a reader over `plain`.
use vstd::prelude::*;
verus! {
global size_of usize == 8;

//@include prelude/stream.inc
//@include prelude/xor_spec.inc
impl<R: Seek + Read> XorReader<R> {
//@extract fn src/blockchain/parser/reader.rs :: impl<R: Seek + Read> XorReader<R> :: new
//@spec
        ensures r.reader == reader, r.xor_key == xor_key, r.absolute_pos == 0,
//@end
}

impl<R: Read> Read for XorReader<R> {
//@extract fn src/blockchain/parser/reader.rs :: impl<R: Read> Read for XorReader<R> :: read
//@vis none
//@before `let n = self`
        let ghost p = self.absolute_pos as int;
        let ghost f = self.reader.file();
        let ghost key0 = self.xor_key;
        proof { self.reader.lemma_stream_bounds(); }
//@after `let n = self`
        let ghost raw = buf@;
//@loop 1
                invariant
                    n <= buf@.len(), buf@.len() == raw.len(), xor_key@.len() > 0,
                    self.absolute_pos == p, p + n <= f.len(), f.len() <= u64::MAX, 0 <= p,
                    self.xor_key == key0, key0 == Some(*xor_key),
                    self.reader.inv(), self.reader.file() == f, self.reader.pos() == p + n,
                    //# C11:inv_prefix_decoded_with_key_at_absolute_offset
                    forall|j: int| 0 <= j < i ==> buf@[j] == raw[j] ^ xor_key@[(p + j) % (xor_key@.len() as int)],
                    forall|j: int| i <= j < buf@.len() ==> buf@[j] == raw[j],
//@end
}

impl<R: Seek> Seek for XorReader<R> {
//@extract fn src/blockchain/parser/reader.rs :: impl<R: Seek> Seek for XorReader<R> :: seek
//@vis none
//@end
}

/// C11 as a statement about two data directories: if `obf` is `plain_file` XOR-ed with the key
/// repeating from offset 0, the stream presented by an XorReader over `obf` *is* `plain_file`
/// (so every contract proved for readers of plaintext files applies unchanged).
pub proof fn lemma_xor_roundtrip<R: Stream>(x: XorReader<R>, plain_file: Seq<u8>)
    requires
        x.inv(),
        x.xor_key is Some,
        x.reader.file().len() == plain_file.len(),
        forall|i: int| 0 <= i < plain_file.len() ==>
            x.reader.file()[i] == plain_file[i] ^ (x.xor_key->Some_0)@[i % ((x.xor_key->Some_0)@.len() as int)],
    ensures
        x.file() =~= plain_file,
{
    let k = (x.xor_key->Some_0)@;
    assert forall|i: int| 0 <= i < plain_file.len() implies x.file()[i] == plain_file[i] by {
        let a = plain_file[i];
        let b = k[i % (k.len() as int)];
        assert((a ^ b) ^ b == a) by(bit_vector);
    }
}
/// no key file: identity
pub proof fn lemma_no_key_is_identity<R: Stream>(x: XorReader<R>)
    requires x.inv(), x.xor_key is None,
    ensures x.file() =~= x.reader.file(),
{
}

} // verus!
fn main() {}
