// unit utxo -- callbacks/common.rs {remove_unspents, insert_unspents}, UnspentCsvDump::on_block,
//              Balances::on_block, TxOutpoint::{new,to_bytes}
//@unit props=C07,C08 safety=C07,C08
use vstd::prelude::*;
verus! {
global size_of usize == 8;
//@extract consts src/callbacks/common.rs
//@end

#[allow(unused_macros)] macro_rules! debug { ($($t:tt)*) => { () } }
#[allow(unused_macros)] macro_rules! info  { ($($t:tt)*) => { () } }

pub struct Error;
pub type Result<T> = core::result::Result<T, Error>;

//@include prelude/hashes.inc
//@include prelude/idioms.inc
//@include prelude/hashmap.inc
//@include prelude/script_types.inc
//@include prelude/tx_types.inc

// I/O handles held by the callbacks (never touched by on_block)
#[verifier::external_body] pub struct PathBuf { p: std::path::PathBuf }
#[verifier::external_body] pub struct File { f: std::fs::File }
#[verifier::external_body]
#[verifier::reject_recursive_types(W)]
pub struct BufWriter<W> { w: core::marker::PhantomData<W> }

pub trait ToRaw { }

// ---- spec: the UTXO set as a map from outpoint key to (height, value, address) -----------------
//@extract type src/callbacks/common.rs :: struct UnspentValue
//@end
pub type UMap = Map<Seq<u8>, UnspentValue>;

/// outpoint key = 32-byte txid || little-endian u32 output index
pub open spec fn key_of(txid: sha256d::Hash, index: u32) -> Seq<u8> {
    txid.0@ + vstd::bytes::spec_u32_to_le_bytes(index)
}
pub open spec fn remove_all(m: UMap, ins: Seq<TxInput>, n: int) -> UMap
    decreases n
{
    if n <= 0 { m } else { remove_all(m, ins, n - 1).remove(key_of(ins[n - 1].outpoint.txid, ins[n - 1].outpoint.index)) }
}
pub open spec fn uv(h: u64, o: EvaluatedTxOut) -> UnspentValue {
    UnspentValue { block_height: h, value: o.out.value, address: o.script.address->Some_0 }
}
pub open spec fn ins_all(m: UMap, txid: sha256d::Hash, h: u64, outs: Seq<EvaluatedTxOut>, n: int) -> UMap
    decreases n
{
    if n <= 0 { m } else {
        let p = ins_all(m, txid, h, outs, n - 1);
        if outs[n - 1].script.address is Some { p.insert(key_of(txid, (n - 1) as u32), uv(h, outs[n - 1])) } else { p }
    }
}
pub open spec fn count_addr(outs: Seq<EvaluatedTxOut>, n: int) -> int
    decreases n
{
    if n <= 0 { 0 } else { count_addr(outs, n - 1) + (if outs[n - 1].script.address is Some { 1int } else { 0int }) }
}
/// one transaction: spend its inputs, then create its address-bearing outputs
pub open spec fn apply_tx(m: UMap, tx: Hashed<EvaluatedTx>, h: u64) -> UMap {
    ins_all(remove_all(m, tx.value.inputs@, tx.value.inputs@.len() as int), tx.hash, h, tx.value.outputs@, tx.value.outputs@.len() as int)
}
/// the first n transactions of a block, in block order
pub open spec fn apply_txs(m: UMap, txs: Seq<Hashed<EvaluatedTx>>, h: u64, n: int) -> UMap
    decreases n
{
    if n <= 0 { m } else { apply_tx(apply_txs(m, txs, h, n - 1), txs[n - 1], h) }
}
pub open spec fn sum_in(txs: Seq<Hashed<EvaluatedTx>>, n: int) -> int
    decreases n
{ if n <= 0 { 0 } else { sum_in(txs, n - 1) + txs[n - 1].value.in_count.value } }
pub open spec fn sum_out(txs: Seq<Hashed<EvaluatedTx>>, n: int) -> int
    decreases n
{ if n <= 0 { 0 } else { sum_out(txs, n - 1) + count_addr(txs[n - 1].value.outputs@, txs[n - 1].value.outputs@.len() as int) } }

/// input well-formedness established by the parser (unit reader): fewer than 2^32 outputs per tx
pub open spec fn tx_wf(tx: Hashed<EvaluatedTx>) -> bool { tx.value.outputs@.len() <= u32::MAX }
pub open spec fn block_wf(b: Block) -> bool { forall|i: int| 0 <= i < b.txs@.len() ==> tx_wf(#[trigger] b.txs@[i]) }

impl TxOutpoint {
//@extract fn src/blockchain/proto/tx.rs :: impl TxOutpoint :: new
//@spec
        ensures r.txid == txid, r.index == index,
//@end

//@extract fn src/blockchain/proto/tx.rs :: impl ToRaw for TxOutpoint :: to_bytes
//@vis pub
//@idiom I7 `bytes.extend(self.txid.as_byte_array())`
//@idiom I7 `bytes.extend(&self.index.to_le_bytes())`
//@idiom I11 `self.index.to_le_bytes()`
//@spec
        ensures
            //# C07:outpoint_key_is_txid_then_le32_index
            r@ == key_of(self.txid, self.index),
//@end
}

//@extract fn src/callbacks/common.rs :: - :: remove_unspents
//@spec
        ensures
            //# C07:spent_outpoints_removed_nothing_else_changes
            final(unspents).view() =~= remove_all(old(unspents).view(), tx.value.inputs@, tx.value.inputs@.len() as int),
            r == tx.value.in_count.value,
//@loop 1 label=it
        invariant
            it.seq().len() == tx.value.inputs@.len(),
            forall|i: int| 0 <= i < tx.value.inputs@.len() ==> it.seq()[i] == &tx.value.inputs@[i],
            unspents.view() =~= remove_all(old(unspents).view(), tx.value.inputs@, it.index@ as int),
//@end

//@extract fn src/callbacks/common.rs :: - :: insert_unspents
//@idiom I1 loop 1
//@spec
        requires tx_wf(*tx),
        ensures
            //# C07:address_bearing_outputs_inserted_nothing_else_changes
            final(unspents).view() =~= ins_all(old(unspents).view(), tx.hash, block_height, tx.value.outputs@, tx.value.outputs@.len() as int),
            //# C07:count_is_number_of_address_bearing_outputs
            r == count_addr(tx.value.outputs@, tx.value.outputs@.len() as int),
//@before `let mut count = 0;`
    let ghost n_out = tx.value.outputs@.len();
//@loop 1
        invariant
            tx_wf(*tx), n_out == tx.value.outputs@.len(),
            count == count_addr(tx.value.outputs@, i as int), count <= i,
            unspents.view() =~= ins_all(old(unspents).view(), tx.hash, block_height, tx.value.outputs@, i as int),
//@end

pub mod common { pub use super::{insert_unspents, remove_unspents, UnspentValue}; }

/// the Callback trait as far as on_block goes (preconditions of a trait method live in the trait)
pub trait Callback {
    spec fn on_block_pre(&self, block: &Block) -> bool;
    fn on_block(&mut self, block: &Block, block_height: u64) -> (r: Result<()>)
        requires old(self).on_block_pre(block);
}

//@extract type src/callbacks/unspentcsvdump.rs :: struct UnspentCsvDump
//@end

impl Callback for UnspentCsvDump {
    /// counters do not overflow u64 (input well-formedness; a chain has far fewer than 2^64 inputs)
    open spec fn on_block_pre(&self, block: &Block) -> bool {
        block_wf(*block)
        && self.in_count + sum_in(block.txs@, block.txs@.len() as int) <= u64::MAX
        && self.out_count + sum_out(block.txs@, block.txs@.len() as int) <= u64::MAX
        && self.tx_count + block.tx_count.value <= u64::MAX
    }
//@extract fn src/callbacks/unspentcsvdump.rs :: impl Callback for UnspentCsvDump :: on_block
//@vis none
//@spec
        ensures
            r is Ok,
            //# C07:per_tx_remove_then_insert_in_block_order
            final(self).unspents.view() =~= apply_txs(old(self).unspents.view(), block.txs@, block_height, block.txs@.len() as int),
            //# C07:counters
            final(self).in_count == old(self).in_count + sum_in(block.txs@, block.txs@.len() as int),
            final(self).out_count == old(self).out_count + sum_out(block.txs@, block.txs@.len() as int),
            final(self).tx_count == old(self).tx_count + block.tx_count.value,
            final(self).start_height == old(self).start_height,
//@before `for tx in &block.txs {`
        proof { lemma_sums_monotone(block.txs@, block.txs@.len() as int); }
//@loop 1 label=it
            invariant
                it.seq().len() == block.txs@.len(),
                forall|i: int| 0 <= i < block.txs@.len() ==> it.seq()[i] == &block.txs@[i],
                block_wf(*block),
                self.unspents.view() =~= apply_txs(old(self).unspents.view(), block.txs@, block_height, it.index@ as int),
                self.in_count == old(self).in_count + sum_in(block.txs@, it.index@ as int),
                self.out_count == old(self).out_count + sum_out(block.txs@, it.index@ as int),
                self.tx_count == old(self).tx_count, self.start_height == old(self).start_height,
                old(self).in_count + sum_in(block.txs@, block.txs@.len() as int) <= u64::MAX,
                old(self).out_count + sum_out(block.txs@, block.txs@.len() as int) <= u64::MAX,
                old(self).tx_count + block.tx_count.value <= u64::MAX,
                forall|k: int| 0 <= k <= block.txs@.len() ==> #[trigger] sum_in(block.txs@, k) <= sum_in(block.txs@, block.txs@.len() as int),
                forall|k: int| 0 <= k <= block.txs@.len() ==> #[trigger] sum_out(block.txs@, k) <= sum_out(block.txs@, block.txs@.len() as int),
//@before `self.in_count += common::remove_unspents(tx, &mut self.unspents);`
            assert(*tx == block.txs@[it.index@ as int]);
            assert(sum_in(block.txs@, it.index@ + 1) <= sum_in(block.txs@, block.txs@.len() as int));
            assert(sum_out(block.txs@, it.index@ + 1) <= sum_out(block.txs@, block.txs@.len() as int));
//@end
}

//@extract type src/callbacks/balances.rs :: struct Balances
//@end

impl Callback for Balances {
    open spec fn on_block_pre(&self, block: &Block) -> bool { block_wf(*block) }
//@extract fn src/callbacks/balances.rs :: impl Callback for Balances :: on_block
//@vis none
//@spec
        ensures
            r is Ok,
            //# C08:same_unspent_set_as_unspentcsvdump
            final(self).unspents.view() =~= apply_txs(old(self).unspents.view(), block.txs@, block_height, block.txs@.len() as int),
//@loop 1 label=it
            invariant
                it.seq().len() == block.txs@.len(),
                forall|i: int| 0 <= i < block.txs@.len() ==> it.seq()[i] == &block.txs@[i],
                block_wf(*block),
                self.unspents.view() =~= apply_txs(old(self).unspents.view(), block.txs@, block_height, it.index@ as int),
//@before `common::remove_unspents(tx, &mut self.unspents);`
            assert(*tx == block.txs@[it.index@ as int]);
//@end
}

pub proof fn lemma_sums_monotone(txs: Seq<Hashed<EvaluatedTx>>, n: int)
    requires 0 <= n <= txs.len(),
    ensures
        forall|k: int| 0 <= k <= n ==> #[trigger] sum_in(txs, k) <= sum_in(txs, n),
        forall|k: int| 0 <= k <= n ==> #[trigger] sum_out(txs, k) <= sum_out(txs, n),
        forall|k: int| 0 <= k <= n ==> 0 <= #[trigger] sum_in(txs, k),
        forall|k: int| 0 <= k <= n ==> 0 <= #[trigger] sum_out(txs, k),
    decreases n
{
    if n > 0 {
        lemma_sums_monotone(txs, n - 1);
        lemma_count_addr_nonneg(txs[n - 1].value.outputs@, txs[n - 1].value.outputs@.len() as int);
        assert(0 <= sum_in(txs, n - 1) && 0 <= sum_out(txs, n - 1));
        assert(sum_in(txs, n) == sum_in(txs, n - 1) + txs[n - 1].value.in_count.value);
        assert(sum_in(txs, n - 1) <= sum_in(txs, n) && sum_out(txs, n - 1) <= sum_out(txs, n));
    } else {
        assert(sum_in(txs, 0) == 0 && sum_out(txs, 0) == 0);
    }
}
pub proof fn lemma_count_addr_nonneg(outs: Seq<EvaluatedTxOut>, n: int)
    ensures 0 <= count_addr(outs, n)
    decreases n
{
    if n > 0 { lemma_count_addr_nonneg(outs, n - 1); }
}

} // verus!
fn main() {}
