// unit utxo -- callbacks/common.rs {remove_unspents, insert_unspents}, UnspentCsvDump::on_block,
//              Balances::on_block, TxOutpoint::{new,to_bytes}
//@unit props=C07,C08 safety=C07,C08
use vstd::prelude::*;
verus! {
global size_of usize == 8;
//@extract consts src/callbacks/common.rs
//@end

#[allow(unused_macros)] macro_rules! debug { ($($t:tt)*) => { () } }
#[allow(unused_macros)] macro_rules! info  { ($($t:tt)*) => { () } }

pub struct Error;
pub type Result<T> = core::result::Result<T, Error>;

//@include prelude/hashes.inc
//@include prelude/idioms.inc
//@include prelude/hashmap.inc
//@include prelude/script_types.inc
//@include prelude/tx_types.inc

// I/O handles held by the callbacks (never touched by on_block)
#[verifier::external_body] pub struct PathBuf { p: std::path::PathBuf }
#[verifier::external_body] pub struct File { f: std::fs::File }
#[verifier::external_body]
#[verifier::reject_recursive_types(W)]
pub struct BufWriter<W> { w: core::marker::PhantomData<W> }

pub trait ToRaw { }

// ---- spec: the UTXO set as a map from outpoint key to (height, value, address) -----------------
//@extract type src/callbacks/common.rs :: struct UnspentValue
//@end
pub type UMap = Map<Seq<u8>, UnspentValue>;

/// outpoint key = 32-byte txid || little-endian u32 output index
pub open spec fn key_of(txid: sha256d::Hash, index: u32) -> Seq<u8> {
    txid.0@ + vstd::bytes::spec_u32_to_le_bytes(index)
}
pub open spec fn remove_all(m: UMap, ins: Seq<TxInput>, n: int) -> UMap
    decreases n
{
    if n <= 0 { m } else { remove_all(m, ins, n - 1).remove(key_of(ins[n - 1].outpoint.txid, ins[n - 1].outpoint.index)) }
}
pub open spec fn uv(h: u64, o: EvaluatedTxOut) -> UnspentValue {
    UnspentValue { block_height: h, value: o.out.value, address: o.script.address->Some_0 }
}
pub open spec fn ins_all(m: UMap, txid: sha256d::Hash, h: u64, outs: Seq<EvaluatedTxOut>, n: int) -> UMap
    decreases n
{
    if n <= 0 { m } else {
        let p = ins_all(m, txid, h, outs, n - 1);
        if outs[n - 1].script.address is Some { p.insert(key_of(txid, (n - 1) as u32), uv(h, outs[n - 1])) } else { p }
    }
}
pub open spec fn count_addr(outs: Seq<EvaluatedTxOut>, n: int) -> int
    decreases n
{
    if n <= 0 { 0 } else { count_addr(outs, n - 1) + (if outs[n - 1].script.address is Some { 1int } else { 0int }) }
}
/// one transaction: spend its inputs, then create its address-bearing outputs
pub open spec fn apply_tx(m: UMap, tx: Hashed<EvaluatedTx>, h: u64) -> UMap {
    ins_all(remove_all(m, tx.value.inputs@, tx.value.inputs@.len() as int), tx.hash, h, tx.value.outputs@, tx.value.outputs@.len() as int)
}
/// the first n transactions of a block, in block order
pub open spec fn apply_txs(m: UMap, txs: Seq<Hashed<EvaluatedTx>>, h: u64, n: int) -> UMap
    decreases n
{
    if n <= 0 { m } else { apply_tx(apply_txs(m, txs, h, n - 1), txs[n - 1], h) }
}
pub open spec fn sum_in(txs: Seq<Hashed<EvaluatedTx>>, n: int) -> int
    decreases n
{ if n <= 0 { 0 } else { sum_in(txs, n - 1) + txs[n - 1].value.in_count.value } }
pub open spec fn sum_out(txs: Seq<Hashed<EvaluatedTx>>, n: int) -> int
    decreases n
{ if n <= 0 { 0 } else { sum_out(txs, n - 1) + count_addr(txs[n - 1].value.outputs@, txs[n - 1].value.outputs@.len() as int) } }

/// input well-formedness established by the parser (unit reader): fewer than 2^32 outputs per tx
pub open spec fn tx_wf(tx: Hashed<EvaluatedTx>) -> bool { tx.value.outputs@.len() <= u32::MAX }
pub open spec fn block_wf(b: Block) -> bool { forall|i: int| 0 <= i < b.txs@.len() ==> tx_wf(#[trigger] b.txs@[i]) }

impl TxOutpoint {
//@extract fn src/blockchain/proto/tx.rs :: impl TxOutpoint :: new
//@spec
        ensures r.txid == txid, r.index == index,
//@end

//@extract fn src/blockchain/proto/tx.rs :: impl ToRaw for TxOutpoint :: to_bytes
//@vis pub
//@idiom I7 `bytes.extend(self.txid.as_byte_array())`
//@idiom I7 `bytes.extend(&self.index.to_le_bytes())`
//@idiom I11 `self.index.to_le_bytes()`
//@spec
        ensures
            //# C07:outpoint_key_is_txid_then_le32_index
            r@ == key_of(self.txid, self.index),
//@end
}

//@extract fn src/callbacks/common.rs :: - :: remove_unspents
//@spec
        ensures
            //# C07:spent_outpoints_removed_nothing_else_changes
            final(unspents).view() =~= remove_all(old(unspents).view(), tx.value.inputs@, tx.value.inputs@.len() as int),
            r == tx.value.in_count.value,
//@loop 1 label=it
        invariant
            it.seq().len() == tx.value.inputs@.len(),
            forall|i: int| 0 <= i < tx.value.inputs@.len() ==> it.seq()[i] == &tx.value.inputs@[i],
            unspents.view() =~= remove_all(old(unspents).view(), tx.value.inputs@, it.index@ as int),
//@end

//@extract fn src/callbacks/common.rs :: - :: insert_unspents
//@idiom I1 loop 1
//@spec
        requires tx_wf(*tx),
        ensures
            //# C07:address_bearing_outputs_inserted_nothing_else_changes
            final(unspents).view() =~= ins_all(old(unspents).view(), tx.hash, block_height, tx.value.outputs@, tx.value.outputs@.len() as int),
            //# C07:count_is_number_of_address_bearing_outputs
            r == count_addr(tx.value.outputs@, tx.value.outputs@.len() as int),
//@before `let mut count = 0;`
    let ghost n_out = tx.value.outputs@.len();
//@loop 1
        invariant
            tx_wf(*tx), n_out == tx.value.outputs@.len(),
            count == count_addr(tx.value.outputs@, i as int), count <= i,
            unspents.view() =~= ins_all(old(unspents).view(), tx.hash, block_height, tx.value.outputs@, i as int),
//@end

pub mod common { pub use super::{insert_unspents, remove_unspents, UnspentValue}; }

/// the Callback trait as far as on_block goes (preconditions of a trait method live in the trait)
pub trait Callback {
    spec fn on_block_pre(&self, block: &Block) -> bool;
    fn on_block(&mut self, block: &Block, block_height: u64) -> (r: Result<()>)
        requires old(self).on_block_pre(block);
}

//@extract type src/callbacks/unspentcsvdump.rs :: struct UnspentCsvDump
//@end

impl Callback for UnspentCsvDump {
    /// counters do not overflow u64 (input well-formedness; a chain has far fewer than 2^64 inputs)
    open spec fn on_block_pre(&self, block: &Block) -> bool {
        block_wf(*block)
        && self.in_count + sum_in(block.txs@, block.txs@.len() as int) <= u64::MAX
        && self.out_count + sum_out(block.txs@, block.txs@.len() as int) <= u64::MAX
        && self.tx_count + block.tx_count.value <= u64::MAX
    }
//@extract fn src/callbacks/unspentcsvdump.rs :: impl Callback for UnspentCsvDump :: on_block
//@vis none
//@spec
        ensures
            r is Ok,
            //# C07:per_tx_remove_then_insert_in_block_order
            final(self).unspents.view() =~= apply_txs(old(self).unspents.view(), block.txs@, block_height, block.txs@.len() as int),
            //# C07:counters
            final(self).in_count == old(self).in_count + sum_in(block.txs@, block.txs@.len() as int),
            final(self).out_count == old(self).out_count + sum_out(block.txs@, block.txs@.len() as int),
            final(self).tx_count == old(self).tx_count + block.tx_count.value,
            final(self).start_height == old(self).start_height,
//@before `for tx in &block.txs {`
        proof { lemma_sums_monotone(block.txs@, block.txs@.len() as int); }
//@loop 1 label=it
            invariant
                it.seq().len() == block.txs@.len(),
                forall|i: int| 0 <= i < block.txs@.len() ==> it.seq()[i] == &block.txs@[i],
                block_wf(*block),
                self.unspents.view() =~= apply_txs(old(self).unspents.view(), block.txs@, block_height, it.index@ as int),
                self.in_count == old(self).in_count + sum_in(block.txs@, it.index@ as int),
                self.out_count == old(self).out_count + sum_out(block.txs@, it.index@ as int),
                self.tx_count == old(self).tx_count, self.start_height == old(self).start_height,
                old(self).in_count + sum_in(block.txs@, block.txs@.len() as int) <= u64::MAX,
                old(self).out_count + sum_out(block.txs@, block.txs@.len() as int) <= u64::MAX,
                old(self).tx_count + block.tx_count.value <= u64::MAX,
                forall|k: int| 0 <= k <= block.txs@.len() ==> #[trigger] sum_in(block.txs@, k) <= sum_in(block.txs@, block.txs@.len() as int),
                forall|k: int| 0 <= k <= block.txs@.len() ==> #[trigger] sum_out(block.txs@, k) <= sum_out(block.txs@, block.txs@.len() as int),
//@before `self.in_count`
            assert(*tx == block.txs@[it.index@ as int]);
            assert(sum_in(block.txs@, it.index@ + 1) <= sum_in(block.txs@, block.txs@.len() as int));
            assert(sum_out(block.txs@, it.index@ + 1) <= sum_out(block.txs@, block.txs@.len() as int));
//@end
}

//@extract type src/callbacks/balances.rs :: struct Balances
//@end

impl Callback for Balances {
    open spec fn on_block_pre(&self, block: &Block) -> bool { block_wf(*block) }
//@extract fn src/callbacks/balances.rs :: impl Callback for Balances :: on_block
//@vis none
//@spec
        ensures
            r is Ok,
            //# C08:same_unspent_set_as_unspentcsvdump
            final(self).unspents.view() =~= apply_txs(old(self).unspents.view(), block.txs@, block_height, block.txs@.len() as int),
//@loop 1 label=it
            invariant
                it.seq().len() == block.txs@.len(),
                forall|i: int| 0 <= i < block.txs@.len() ==> it.seq()[i] == &block.txs@[i],
                block_wf(*block),
                self.unspents.view() =~= apply_txs(old(self).unspents.view(), block.txs@, block_height, it.index@ as int),
//@before `common::remove_unspents`
            assert(*tx == block.txs@[it.index@ as int]);
//@end
}

pub proof fn lemma_sums_monotone(txs: Seq<Hashed<EvaluatedTx>>, n: int)
    requires 0 <= n <= txs.len(),
    ensures
        forall|k: int| 0 <= k <= n ==> #[trigger] sum_in(txs, k) <= sum_in(txs, n),
        forall|k: int| 0 <= k <= n ==> #[trigger] sum_out(txs, k) <= sum_out(txs, n),
        forall|k: int| 0 <= k <= n ==> 0 <= #[trigger] sum_in(txs, k),
        forall|k: int| 0 <= k <= n ==> 0 <= #[trigger] sum_out(txs, k),
    decreases n
{
    if n > 0 {
        lemma_sums_monotone(txs, n - 1);
        lemma_count_addr_nonneg(txs[n - 1].value.outputs@, txs[n - 1].value.outputs@.len() as int);
        assert(0 <= sum_in(txs, n - 1) && 0 <= sum_out(txs, n - 1));
        assert(sum_in(txs, n) == sum_in(txs, n - 1) + txs[n - 1].value.in_count.value);
        assert(sum_in(txs, n - 1) <= sum_in(txs, n) && sum_out(txs, n - 1) <= sum_out(txs, n));
    } else {
        assert(sum_in(txs, 0) == 0 && sum_out(txs, 0) == 0);
    }
}
pub proof fn lemma_count_addr_nonneg(outs: Seq<EvaluatedTxOut>, n: int)
    ensures 0 <= count_addr(outs, n)
    decreases n
{
    if n > 0 { lemma_count_addr_nonneg(outs, n - 1); }
}


// ---- C07: what the maintained map IS, in the property's own words -----------------------------------------------
pub struct TxH { pub tx: Hashed<EvaluatedTx>, pub h: u64 }
/// the map after the first n transactions of a history (in chain order), starting from the empty map
pub open spec fn run(txs: Seq<TxH>, n: int) -> UMap
    decreases n
{ if n <= 0 { Map::empty() } else { apply_tx(run(txs, n - 1), txs[n - 1].tx, txs[n - 1].h) } }
pub open spec fn creates_at(t: TxH, i: int, k: Seq<u8>) -> bool {
    0 <= i < t.tx.value.outputs@.len() && t.tx.value.outputs@[i].script.address is Some && key_of(t.tx.hash, i as u32) == k
}
/// transaction t creates an address-bearing output with outpoint key k
pub open spec fn creates(t: TxH, k: Seq<u8>) -> bool { exists|i: int| creates_at(t, i, k) }
pub open spec fn spends_at(t: TxH, i: int, k: Seq<u8>) -> bool {
    0 <= i < t.tx.value.inputs@.len() && key_of(t.tx.value.inputs@[i].outpoint.txid, t.tx.value.inputs@[i].outpoint.index) == k
}
/// an input of transaction t references outpoint key k
pub open spec fn spends(t: TxH, k: Seq<u8>) -> bool { exists|i: int| spends_at(t, i, k) }

pub proof fn lemma_remove_all_dom(m: UMap, ins: Seq<TxInput>, n: int, k: Seq<u8>)
    requires 0 <= n <= ins.len(),
    ensures remove_all(m, ins, n).contains_key(k) <==>
        (m.contains_key(k) && forall|i: int| 0 <= i < n ==> key_of(#[trigger] ins[i].outpoint.txid, ins[i].outpoint.index) != k),
    decreases n
{
    if n > 0 { lemma_remove_all_dom(m, ins, n - 1, k); }
}
pub proof fn lemma_ins_all_dom(m: UMap, txid: sha256d::Hash, h: u64, outs: Seq<EvaluatedTxOut>, n: int, k: Seq<u8>)
    requires 0 <= n <= outs.len(),
    ensures ins_all(m, txid, h, outs, n).contains_key(k) <==>
        (m.contains_key(k) || exists|i: int| 0 <= i < n && (#[trigger] outs[i]).script.address is Some && key_of(txid, i as u32) == k),
    decreases n
{
    if n > 0 {
        lemma_ins_all_dom(m, txid, h, outs, n - 1, k);
        let p = ins_all(m, txid, h, outs, n - 1);
        if outs[n - 1].script.address is Some && key_of(txid, (n - 1) as u32) == k {
            assert(ins_all(m, txid, h, outs, n).contains_key(k));
        }
    }
}
/// one transaction: k is in the map afterwards iff it is created by t, or was there before and is not spent by t
pub proof fn lemma_apply_tx_dom(m: UMap, t: TxH, k: Seq<u8>)
    ensures apply_tx(m, t.tx, t.h).contains_key(k) <==> (creates(t, k) || (m.contains_key(k) && !spends(t, k))),
{
    let ins = t.tx.value.inputs@;
    let outs = t.tx.value.outputs@;
    let m1 = remove_all(m, ins, ins.len() as int);
    lemma_remove_all_dom(m, ins, ins.len() as int, k);
    lemma_ins_all_dom(m1, t.tx.hash, t.h, outs, outs.len() as int, k);
    if creates(t, k) {
        let i = choose|i: int| creates_at(t, i, k);
        assert(outs[i].script.address is Some && key_of(t.tx.hash, i as u32) == k);
    }
    if exists|i: int| 0 <= i < outs.len() && (#[trigger] outs[i]).script.address is Some && key_of(t.tx.hash, i as u32) == k {
        let i = choose|i: int| 0 <= i < outs.len() && (#[trigger] outs[i]).script.address is Some && key_of(t.tx.hash, i as u32) == k;
        assert(creates_at(t, i, k));
    }
    if spends(t, k) {
        let i = choose|i: int| spends_at(t, i, k);
        assert(key_of(ins[i].outpoint.txid, ins[i].outpoint.index) == k);
    }
    if !(forall|i: int| 0 <= i < ins.len() ==> key_of(#[trigger] ins[i].outpoint.txid, ins[i].outpoint.index) != k) {
        let i = choose|i: int| 0 <= i < ins.len() && key_of(#[trigger] ins[i].outpoint.txid, ins[i].outpoint.index) == k;
        assert(spends_at(t, i, k));
    }
}
/// C07: after a history, outpoint k is listed iff some transaction created it (with an address) and no LATER
/// transaction of the history -- later in the same block included -- references it; nothing else is listed
pub open spec fn listed(txs: Seq<TxH>, n: int, k: Seq<u8>) -> bool {
    exists|j: int| 0 <= j < n && #[trigger] creates(txs[j], k) && forall|j2: int| j < j2 < n ==> !#[trigger] spends(txs[j2], k)
}
pub proof fn lemma_final_set(txs: Seq<TxH>, n: int, k: Seq<u8>)
    requires 0 <= n <= txs.len(),
    ensures
        //# C07:exactly_the_unspent_address_bearing_outputs_of_the_range
        run(txs, n).contains_key(k) <==> listed(txs, n, k),
    decreases n
{
    if n > 0 {
        lemma_final_set(txs, n - 1, k);
        let t = txs[n - 1];
        lemma_apply_tx_dom(run(txs, n - 1), t, k);
        if listed(txs, n, k) {
            let j = choose|j: int| 0 <= j < n && #[trigger] creates(txs[j], k) && forall|j2: int| j < j2 < n ==> !#[trigger] spends(txs[j2], k);
            if j < n - 1 {
                assert(!spends(txs[n - 1], k));
                assert(listed(txs, n - 1, k));
            }
        }
        if run(txs, n).contains_key(k) {
            if creates(t, k) {
                assert(creates(txs[n - 1], k));
                assert(listed(txs, n, k));
            } else {
                assert(listed(txs, n - 1, k));
                let j = choose|j: int| 0 <= j < n - 1 && #[trigger] creates(txs[j], k) && forall|j2: int| j < j2 < n - 1 ==> !#[trigger] spends(txs[j2], k);
                assert(forall|j2: int| j < j2 < n ==> !#[trigger] spends(txs[j2], k));
                assert(listed(txs, n, k));
            }
        }
    } else {
        assert(!run(txs, 0).contains_key(k));
    }
}

// ---- link to unit dumps: every key the callbacks ever hold is a 36-byte outpoint (precondition of the dump loop) ------
pub open spec fn keys_wf(m: UMap) -> bool { forall|k: Seq<u8>| m.contains_key(k) ==> k.len() == 36 }
pub proof fn lemma_key_len(txid: sha256d::Hash, index: u32)
    ensures key_of(txid, index).len() == 36
{ vstd::bytes::lemma_auto_spec_u32_to_from_le_bytes(); }
pub proof fn lemma_keys_wf_tx(m: UMap, tx: Hashed<EvaluatedTx>, h: u64)
    requires keys_wf(m),
    ensures
        //# C07:keys_stay_36_byte_outpoints
        keys_wf(apply_tx(m, tx, h)),
{
    let m1 = remove_all(m, tx.value.inputs@, tx.value.inputs@.len() as int);
    assert forall|k: Seq<u8>| m1.contains_key(k) implies k.len() == 36 by {
        lemma_remove_all_dom(m, tx.value.inputs@, tx.value.inputs@.len() as int, k);
    }
    lemma_ins_all_keys(m1, tx.hash, h, tx.value.outputs@, tx.value.outputs@.len() as int);
}
pub proof fn lemma_ins_all_keys(m: UMap, txid: sha256d::Hash, h: u64, outs: Seq<EvaluatedTxOut>, n: int)
    requires keys_wf(m), 0 <= n <= outs.len(),
    ensures keys_wf(ins_all(m, txid, h, outs, n)),
    decreases n
{
    if n > 0 { lemma_ins_all_keys(m, txid, h, outs, n - 1); lemma_key_len(txid, (n - 1) as u32); }
}
pub proof fn lemma_keys_wf_run(txs: Seq<TxH>, n: int)
    requires 0 <= n <= txs.len(),
    ensures keys_wf(run(txs, n)),
    decreases n
{
    if n > 0 { lemma_keys_wf_run(txs, n - 1); lemma_keys_wf_tx(run(txs, n - 1), txs[n - 1].tx, txs[n - 1].h); }
}

} // verus!
fn main() {}
