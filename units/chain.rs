// unit chain -- ChainStorage::{get_block, verify, max_height} (chain.rs), ChainIndex::{get,
//   max_height, max_height_by_blk} (index.rs), BlkFile::{open, close, read_block} (blkfile.rs),
//   Block::verify_merkle_root (block.rs)
//@unit props=C03,C09,C12,C17 safety=C03
use vstd::prelude::*;
verus! {
global size_of usize == 8;
//@extract consts src/blockchain/parser/blkfile.rs
//@end

#[allow(unused_macros)] macro_rules! debug { ($($t:tt)*) => { () } }
#[allow(unused_macros)] macro_rules! format { ($($t:tt)*) => { crate::fmt_shim() } }

//@include prelude/stream.inc
pub type Error = io::Error;
pub type Result<T> = core::result::Result<T, Error>;
#[verifier::external_body]
pub fn fmt_shim() -> String { String::new() }
impl From<String> for io::Error { #[verifier::external_body] fn from(s: String) -> io::Error { unimplemented!() } }
impl From<&str> for io::Error { #[verifier::external_body] fn from(s: &str) -> io::Error { unimplemented!() } }
pub use io::SeekFrom;

//@include prelude/hashes.inc
//@include prelude/hashmap.inc
//@include prelude/script_types.inc
//@include prelude/tx_types.inc
//@include prelude/xor_spec.inc

// ---- file system / buffered reader (trusted dependencies) ------------------------------------------
#[verifier::external_body] pub struct PathBuf { p: std::path::PathBuf }
impl Clone for PathBuf { #[verifier::external_body] fn clone(&self) -> (r: Self) ensures r == *self { unimplemented!() } }
/// bytes stored in the file at `path` (the data directory is an input of the run)
pub uninterp spec fn file_at(path: &PathBuf) -> Seq<u8>;
pub struct File { pub content: Ghost<Seq<u8>> }
impl File {
    #[verifier::external_body]
    pub fn open(path: &PathBuf) -> (r: Result<File>)
        ensures r is Ok ==> r->Ok_0.content@ == file_at(path) && r->Ok_0.content@.len() <= u64::MAX
    { unimplemented!() }
}
/// seek_bufread::BufReader
pub struct BufReader<T> { pub inner: T, pub bytes: Ghost<Seq<u8>>, pub at: Ghost<int> }
impl Stream for BufReader<File> {
    open spec fn inv(&self) -> bool { 0 <= self.at@ && self.bytes@.len() <= u64::MAX }
    open spec fn file(&self) -> Seq<u8> { self.bytes@ }
    open spec fn pos(&self) -> int { self.at@ }
    proof fn lemma_stream_bounds(&self) { }
}
impl BufReader<File> {
    #[verifier::external_body]
    pub fn with_capacity(cap: usize, f: File) -> (r: Self)
        requires f.content@.len() <= u64::MAX,
        ensures r.inv(), r.file() == f.content@, r.pos() == 0
    { unimplemented!() }
}
impl Read for BufReader<File> { #[verifier::external_body] fn read(&mut self, buf: &mut [u8]) -> (r: io::Result<usize>) { unimplemented!() } }
impl Seek for BufReader<File> { #[verifier::external_body] fn seek(&mut self, pos: io::SeekFrom) -> (r: io::Result<u64>) { unimplemented!() } }

// XorReader: contracts proved on the real bodies in unit xor, assumed here
impl<R: Seek + Read> XorReader<R> {
    #[verifier::external_body]
    pub fn new(reader: R, xor_key: Option<Vec<u8>>) -> (r: XorReader<R>)
        ensures r.reader == reader, r.xor_key == xor_key, r.absolute_pos == 0,
    { unimplemented!() }
}
impl<R: Read> Read for XorReader<R> { #[verifier::external_body] fn read(&mut self, buf: &mut [u8]) -> (r: io::Result<usize>) { unimplemented!() } }
impl<R: Seek> Seek for XorReader<R> { #[verifier::external_body] fn seek(&mut self, pos: io::SeekFrom) -> (r: io::Result<u64>) { unimplemented!() } }

pub struct LittleEndian;
pub open spec fn le32_at(f: Seq<u8>, p: int) -> u32 { vstd::bytes::spec_u32_from_le_bytes(f.subrange(p, p + 4)) }

//@extract type src/blockchain/parser/types.rs :: struct CoinType
//@end

/// the block parsed from a stream at a position (contract of BlockchainRead::read_block: its result
/// is a function of the stream content from the current position, the size prefix passed in and
/// the coin -- established function by function in unit reader)
pub uninterp spec fn block_at(content: Seq<u8>, pos: int, size: u32, coin: CoinType) -> Block;

/// byteorder::ReadBytesExt::read_u32::<LittleEndian> and BlockchainRead::read_block as seen by BlkFile
pub trait ReaderExt: Read {
    fn read_u32<T>(&mut self) -> (r: Result<u32>)
        requires old(self).inv(),
        ensures final(self).file() == old(self).file(),
            r is Ok ==> final(self).inv() && old(self).pos() + 4 <= old(self).file().len()
                && final(self).pos() == old(self).pos() + 4 && r->Ok_0 == le32_at(old(self).file(), old(self).pos());
    fn read_block(&mut self, size: u32, coin: &CoinType) -> (r: Result<Block>)
        requires old(self).inv(),
        ensures final(self).file() == old(self).file(),
            r is Ok ==> final(self).inv() && r->Ok_0 == block_at(old(self).file(), old(self).pos(), size, *coin);
}
impl<R: Read> ReaderExt for R {
    #[verifier::external_body] fn read_u32<T>(&mut self) -> (r: Result<u32>) { unimplemented!() }
    #[verifier::external_body] fn read_block(&mut self, size: u32, coin: &CoinType) -> (r: Result<Block>) { unimplemented!() }
}

// ---- blkfile.rs --------------------------------------------------------------------------------------------
//@extract type src/blockchain/parser/blkfile.rs :: struct BlkFile
//@end

/// what a blk file's reader presents: the de-obfuscated content of the file at `path`
pub open spec fn plain_file(path: &PathBuf, key: Option<Vec<u8>>) -> Seq<u8> {
    Seq::new(file_at(path).len(), |i: int| plain(file_at(path), key, i))
}

/// a key as a value: Option<Vec<u8>>::clone() is only known to preserve the bytes
pub open spec fn kv(k: Option<Vec<u8>>) -> Option<Seq<u8>> { match k { Some(v) => Some(v@), None => None } }
pub proof fn lemma_plain_file_kv(path: &PathBuf, k1: Option<Vec<u8>>, k2: Option<Vec<u8>>)
    requires kv(k1) == kv(k2),
    ensures plain_file(path, k1) =~= plain_file(path, k2),
{
}

impl BlkFile {
    pub open spec fn key_ok(&self) -> bool { self.xor_key matches Some(k) ==> k@.len() > 0 }
    /// an open reader reads this file with this key
    pub open spec fn wf(&self) -> bool {
        &&& self.key_ok()
        &&& (self.reader matches Some(rd) ==> rd.inv() && rd.file() == plain_file(&self.path, self.xor_key))
    }
    pub open spec fn is_open(&self) -> bool { self.reader is Some }

//@extract fn src/blockchain/parser/blkfile.rs :: impl BlkFile :: new
//@vis pub
//@spec
        ensures
            r.path == path, r.xor_key == xor_key,
            //# C17:a_discovered_file_is_not_opened
            !r.is_open(),
//@end

    /// directory scan (fs::read_dir, symlink resolution, file-name parsing): trusted. ASSUMED contract: every entry is built
    /// with BlkFile::new (above: reader None) and carries the key read from xor.dat, which is non-empty when present
    #[verifier::external_body]
    pub fn from_path(path: &PathBuf) -> (r: Result<HashMap<u64, BlkFile>>)
        ensures r is Ok ==> forall|f: u64| r->Ok_0.view().contains_key(f) ==> !(#[trigger] r->Ok_0.view()[f]).is_open() && r->Ok_0.view()[f].key_ok(),
    { unimplemented!() }

//@extract fn src/blockchain/parser/blkfile.rs :: impl BlkFile :: open
//@spec
        requires old(self).wf(),
        ensures
            final(self).path == old(self).path, final(self).xor_key == old(self).xor_key,
            match r {
                Ok(rd) => {
                    //# C17:lazy_reopen   (the handle returned is the one stored; an already open one is reused)
                    &&& final(self).reader == Some(*final(rd))
                    &&& (old(self).reader matches Some(o) ==> *rd == o)
                    //# C11:key_from_xor_dat_reaches_every_reader
                    &&& rd.file() == plain_file(&old(self).path, old(self).xor_key) && rd.inv()
                },
                Err(_) => final(self).reader == old(self).reader,
            },
//@after `self.reader =`
            proof {
                let rd = self.reader->Some_0;
                assert(rd.file() =~= plain_file(&self.path, rd.xor_key));
                lemma_plain_file_kv(&self.path, rd.xor_key, self.xor_key);
            }
//@end

//@extract fn src/blockchain/parser/blkfile.rs :: impl BlkFile :: close
//@spec
        ensures
            //# C17:close_drops_the_handle
            final(self).reader is None,
            final(self).path == old(self).path, final(self).xor_key == old(self).xor_key,
//@end

//@extract fn src/blockchain/parser/blkfile.rs :: impl BlkFile :: read_block
//@spec
        requires
            old(self).wf(),
            //# pre:offset_at_least_4   (data offsets in the index start at 8)
            offset >= 4,
        ensures
            final(self).path == old(self).path, final(self).xor_key == old(self).xor_key,
            r is Ok ==> final(self).wf(),
            //# C03:block_read_at_recorded_offset_with_stored_size_prefix
            r is Ok ==> offset <= plain_file(&old(self).path, old(self).xor_key).len()
                && r->Ok_0 == block_at(plain_file(&old(self).path, old(self).xor_key), offset as int,
                        le32_at(plain_file(&old(self).path, old(self).xor_key), offset - 4), *coin),
//@after `let reader =`
        assert(reader.file() == plain_file(&old(self).path, old(self).xor_key));
//@end
}

// ---- index.rs: ChainIndex accessors ----------------------------------------------------------------------
//@extract type src/blockchain/parser/index.rs :: struct BlockIndexRecord
//@end
//@extract type src/blockchain/parser/index.rs :: struct ChainIndex
//@end

impl ChainIndex {
    /// established by ChainIndex::new (proved in unit chainindex, clause C17:per_file_maximum_heights):
    /// every indexed record's file has a per-file maximum height
    pub open spec fn wf(&self) -> bool {
        forall|h: u64| self.block_index.view().contains_key(h) ==>
            self.max_height_blk_index.view().contains_key((#[trigger] self.block_index.view()[h]).blk_index)
    }
    pub open spec fn present(&self) -> Set<u64> { self.block_index.view().dom() }

//@extract fn src/blockchain/parser/index.rs :: impl ChainIndex :: get
//@spec
        ensures
            match r { Some(rec) => self.block_index.view().contains_key(height) && *rec == self.block_index.view()[height],
                      None => !self.block_index.view().contains_key(height) },
//@end

//@extract fn src/blockchain/parser/index.rs :: impl ChainIndex :: max_height
//@spec
        ensures r == self.max_height,
//@end

//@extract fn src/blockchain/parser/index.rs :: impl ChainIndex :: max_height_by_blk
//@spec
        requires self.max_height_blk_index.view().contains_key(blk_index),
        ensures r == self.max_height_blk_index.view()[blk_index],
//@end
}

// ---- block.rs ------------------------------------------------------------------------------------------------
/// Bitcoin merkle root of a block's txids (utils::merkle_root; bounded-checked by Kani on the real code)
pub uninterp spec fn merkle_spec(txids: Seq<sha256d::Hash>) -> sha256d::Hash;
pub open spec fn txids_of(b: Block) -> Seq<sha256d::Hash> { b.txs@.map_values(|t: Hashed<EvaluatedTx>| t.hash) }

impl Block {
    /// `self.txs.iter().map(|tx| tx.hash).collect()` + utils::merkle_root: iterator adapters, outside Verus
    #[verifier::external_body]
    pub fn compute_merkle_root(&self) -> (r: sha256d::Hash) ensures r == merkle_spec(txids_of(*self)) { unimplemented!() }

//@extract fn src/blockchain/proto/block.rs :: impl Block :: verify_merkle_root
//@spec
        ensures
            //# C09:merkle_ok_iff_header_field_equals_computed_root
            r is Ok <==> self.header.value.merkle_root == merkle_spec(txids_of(*self)),
//@end
}

// ---- chain.rs --------------------------------------------------------------------------------------------------
/// ParserOptions: the fields ChainStorage::new reads (the real struct also holds the callback, the range and the log level)
pub struct ParserOptions { pub blockchain_dir: PathBuf, pub coin: CoinType, pub verify: bool }
impl PathBuf { #[verifier::external_body] pub fn as_path(&self) -> (r: &PathBuf) ensures r == self { unimplemented!() } }
impl Clone for CoinType { #[verifier::external_body] fn clone(&self) -> (r: Self) ensures r == *self { unimplemented!() } }
impl ChainIndex {
    /// contract proved on the real body in unit chainindex
    #[verifier::external_body]
    pub fn new(options: &ParserOptions) -> (r: Result<ChainIndex>) { unimplemented!() }
}
//@extract type src/blockchain/parser/chain.rs :: struct ChainStorage
//@end

/// C09: the three conditions --verify checks for the block at a height
pub open spec fn verify_ok(cs: &ChainStorage, block: &Block, height: u64) -> bool {
    &&& block.header.value.merkle_root == merkle_spec(txids_of(*block))
    &&& (height == 0 ==> block.header.hash == cs.coin.genesis_hash)
    &&& (height > 0 ==> block.header.value.prev_hash == cs.chain_index.block_index.view()[(height - 1) as u64].block_hash)
}

impl ChainStorage {
    pub open spec fn files_wf(&self) -> bool {
        forall|f: u64| self.blk_files.view().contains_key(f) ==> (#[trigger] self.blk_files.view()[f]).wf()
    }
    /// data offsets recorded in the index leave room for the 4-byte size prefix (Core writes them from 8)
    pub open spec fn offsets_wf(&self) -> bool {
        forall|h: u64| self.chain_index.block_index.view().contains_key(h) ==> (#[trigger] self.chain_index.block_index.view()[h]).data_offset >= 4
    }
    pub open spec fn wf(&self) -> bool { self.chain_index.wf() && self.files_wf() && self.offsets_wf() }

//@extract fn src/blockchain/parser/chain.rs :: impl ChainStorage :: new
//@spec
        ensures
            r is Ok ==> {
                //# C12:coin_and_verify_flag_are_the_ones_selected_on_the_command_line
                &&& r->Ok_0.coin == options.coin && r->Ok_0.verify == options.verify
                //# C17:no_blk_file_is_open_before_the_first_block
                &&& forall|f: u64| r->Ok_0.blk_files.view().contains_key(f) ==> !(#[trigger] r->Ok_0.blk_files.view()[f]).is_open()
                &&& r->Ok_0.files_wf()
            },
//@end

//@extract fn src/blockchain/parser/chain.rs :: impl ChainStorage :: verify
//@spec
        requires
            //# pre:predecessor_record_retained   (ChainIndex::new keeps start-1 ..= max_height: proved in unit chainindex)
            height > 0 ==> self.chain_index.block_index.view().contains_key((height - 1) as u64),
        ensures
            //# C09:verify_accepts_exactly_consistent_blocks
            r is Ok <==> verify_ok(self, block, height),
//@end

//@extract fn src/blockchain/parser/chain.rs :: impl ChainStorage :: max_height
//@spec
        ensures r == self.chain_index.max_height,
//@end

//@extract fn src/blockchain/parser/chain.rs :: impl ChainStorage :: get_block
//@spec
        requires
            old(self).wf(),
            old(self).verify && height > 0 ==> old(self).chain_index.present().contains((height - 1) as u64),
//@include contracts/get_block_driver.inc
            //# C12:coin_parameters_do_not_change_between_blocks   (the AuxPoW decision depends on the block's own version only)
            final(self).coin == old(self).coin,
            final(self).verify == old(self).verify,
            r is Ok ==> final(self).wf(),
            //# C03:unknown_file_number_is_an_error
            old(self).chain_index.present().contains(height)
                && !old(self).blk_files.view().contains_key(old(self).chain_index.block_index.view()[height].blk_index) ==> r is Err,
            //# C03:block_comes_from_file_and_offset_of_its_index_record
            r matches Ok(Some(b)) ==> ({
                let rec = old(self).chain_index.block_index.view()[height];
                let bf = old(self).blk_files.view()[rec.blk_index];
                let content = plain_file(&bf.path, bf.xor_key);
                &&& old(self).blk_files.view().contains_key(rec.blk_index)
                &&& b == block_at(content, rec.data_offset as int, le32_at(content, rec.data_offset - 4), old(self).coin)
            }),
            //# C09:verify_flag_means_every_delivered_block_verified
            r matches Ok(Some(b)) ==> (old(self).verify ==> verify_ok(old(self), &b, height)),
            //# C17:only_the_files_entry_of_this_block_changes
            old(self).chain_index.present().contains(height) ==> ({
                let f = old(self).chain_index.block_index.view()[height].blk_index;
                &&& final(self).blk_files.view().dom() == old(self).blk_files.view().dom()
                &&& forall|g: u64| g != f && old(self).blk_files.view().contains_key(g) ==> final(self).blk_files.view()[g] == old(self).blk_files.view()[g]
                &&& (old(self).blk_files.view().contains_key(f) ==> final(self).blk_files.view()[f].path == old(self).blk_files.view()[f].path
                        && final(self).blk_files.view()[f].xor_key == old(self).blk_files.view()[f].xor_key)
            }),
            !old(self).chain_index.present().contains(height) ==> final(self).blk_files.view() == old(self).blk_files.view(),
            //# C17:file_closed_once_its_highest_block_is_delivered
            r matches Ok(Some(_)) ==> ({
                let f = old(self).chain_index.block_index.view()[height].blk_index;
                height >= old(self).chain_index.max_height_blk_index.view()[f] ==> !final(self).blk_files.view()[f].is_open()
            }),
//@end
}

/// C17, the inductive step: if before delivering height h every open file still holds a block above
/// h-1 (maxh > h-1) and maxh[f] is the largest height stored in f, then after get_block(h) every open
/// file holds a block above h.  (opens/closed are the sets of open files before/after.)
pub proof fn lemma_open_files_bounded_step(
    open_before: Set<u64>, open_after: Set<u64>, h: int, fh: u64, file_of: Map<int, u64>, maxh: Map<u64, int>)
    requires
        file_of.contains_key(h), file_of[h] == fh,
        // maxh[f] is an upper bound attained only by blocks of f
        forall|f: u64| #[trigger] open_before.contains(f) ==> maxh.contains_key(f),
        maxh.contains_key(fh), maxh[fh] >= h,
        forall|f: u64| maxh.contains_key(f) && #[trigger] maxh[f] == h ==> f == fh,
        // invariant before
        forall|f: u64| #[trigger] open_before.contains(f) ==> maxh[f] > h - 1,
        // get_block(h): only fh's entry changes; fh is closed if h >= maxh[fh]
        forall|f: u64| #[trigger] open_after.contains(f) ==> open_before.contains(f) || f == fh,
        h >= maxh[fh] ==> !open_after.contains(fh),
    ensures
        //# C17:open_files_all_hold_a_block_yet_to_come
        forall|f: u64| #[trigger] open_after.contains(f) ==> maxh[f] > h,
{
    assert forall|f: u64| #[trigger] open_after.contains(f) implies maxh[f] > h by {
        if f != fh {
            assert(open_before.contains(f));
            assert(maxh[f] > h - 1);
            if maxh[f] == h { assert(f == fh); }
        }
    }
}

} // verus!
fn main() {}
