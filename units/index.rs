// unit index -- src/blockchain/parser/index.rs: read_varint, BlockIndexRecord::from,
//               is_block_index_record, get_block_index
//@unit props=C03,C04 safety=C03
use vstd::prelude::*;
verus! {
global size_of usize == 8;
//@extract consts src/blockchain/parser/index.rs
//@end

#[allow(unused_macros)] macro_rules! info { ($($t:tt)*) => { () } }

pub struct Error;
pub type Result<T> = core::result::Result<T, Error>;

//@include prelude/hashes.inc
//@include prelude/hashmap.inc
//@include prelude/index_spec.inc

// ---- std::io::Cursor<&[u8]> + byteorder::ReadBytesExt::read_u8 (assumed contract) ------------
pub struct Cursor<T> { pub inner: T, pub pos: u64 }
impl<'a> Cursor<&'a [u8]> {
    pub fn new(inner: &'a [u8]) -> (r: Self) ensures r.inner@ == inner@, r.pos == 0 { Cursor { inner, pos: 0 } }
    #[verifier::external_body]
    pub fn read_u8(&mut self) -> (r: Result<u8>)
        ensures final(self).inner@ == old(self).inner@,
            match r {
                Ok(b) => old(self).pos < old(self).inner@.len() && b == old(self).inner@[old(self).pos as int]
                    && final(self).pos == old(self).pos + 1,
                Err(_) => old(self).pos >= old(self).inner@.len() && final(self).pos == old(self).pos,
            },
    { unimplemented!() }
}
/// I12: `X.try_into().expect(..)` for slice -> array
#[verifier::external_body]
pub fn idiom_try_into_expect<const N: usize>(s: &[u8]) -> (r: [u8; N])
    requires s@.len() == N,   // SAFETY-SHIM: expect() panics otherwise
    ensures r@ == s@,
{ unimplemented!() }

// ---- rusty-leveldb (assumed contract): new_iter() walks all pairs in key order -----------------
pub struct Path;
pub struct Options;
impl Options { #[verifier::external_body] pub fn default() -> Options { Options } }
pub struct DB { pub content: Ghost<Seq<Rec>> }
pub struct DBIterator { pub content: Ghost<Seq<Rec>>, pub pos: Ghost<int> }
/// the pairs stored in the LevelDB at `path` (the data directory is an input of the run)
pub uninterp spec fn db_at(path: &Path) -> Seq<Rec>;
impl DB {
    #[verifier::external_body]
    pub fn open(p: &Path, o: Options) -> (r: Result<DB>) ensures r is Ok ==> r->Ok_0.content@ == db_at(p) { unimplemented!() }
    #[verifier::external_body]
    pub fn new_iter(&mut self) -> (r: Result<DBIterator>)
        ensures r is Ok ==> r->Ok_0.content@ == old(self).content@ && r->Ok_0.pos@ == 0
    { unimplemented!() }
}
impl DBIterator {
    /// pos = number of pairs already passed; advance() moves onto the next pair if there is one
    #[verifier::external_body]
    pub fn advance(&mut self) -> (r: bool)
        requires 0 <= old(self).pos@ <= old(self).content@.len(),
        ensures final(self).content@ == old(self).content@,
            r == (old(self).pos@ < old(self).content@.len()),
            final(self).pos@ == (if r { old(self).pos@ + 1 } else { old(self).pos@ }),
    { unimplemented!() }
    #[verifier::external_body]
    pub fn current(&self, key: &mut Vec<u8>, value: &mut Vec<u8>) -> (r: bool)
        requires 1 <= self.pos@ <= self.content@.len(),
        ensures final(key)@ == self.content@[self.pos@ - 1].0, final(value)@ == self.content@[self.pos@ - 1].1,
    { unimplemented!() }
}

// ---- the repository's code ------------------------------------------------------------------------

//@extract type src/blockchain/parser/index.rs :: struct BlockIndexRecord
//@end

pub open spec fn rec_view(r: BlockIndexRecord) -> RecSpec {
    RecSpec { hash: r.block_hash.0@, version: r.version as int, height: r.height as int, status: r.status as int,
              tx_count: r.tx_count as int, blk_index: r.blk_index as int, data_offset: r.data_offset as int }
}
pub open spec fn map_view(m: Map<u64, BlockIndexRecord>) -> Map<u64, RecSpec> {
    Map::new(m.dom(), |h: u64| rec_view(m[h]))
}

proof fn lemma_varint_step(n: u64, c: u8)
    requires n <= 0x1ff_ffff_ffff_ffffu64
    ensures ((n << 7) | ((c & 0x7F) as u64)) == n * 128 + (c % 128) as u64, (c & 0x80 > 0) == (c >= 128)
{
    assert(((n << 7) | ((c & 0x7F) as u64)) == n * 128 + (c % 128) as u64) by(bit_vector) requires n <= 0x1ff_ffff_ffff_ffffu64;
    assert((c & 0x80 > 0) == (c >= 128)) by(bit_vector);
}

//@extract fn src/blockchain/parser/index.rs :: - :: read_varint
//@spec
    requires
        old(reader).pos <= old(reader).inner@.len(),
        //# pre:varint_value_fits_u64
        fits(old(reader).inner@, old(reader).pos as int, 0),
    ensures
        final(reader).inner@ == old(reader).inner@,
        old(reader).pos <= final(reader).pos <= final(reader).inner@.len(),
        //# C03:core_varint_decoded_exactly
        match vi(old(reader).inner@, old(reader).pos as int, 0) {
            Some((v, p)) => r is Ok && r->Ok_0 == v && final(reader).pos == p,
            None => r is Err,
        },
//@loop 1
        invariant_except_break
            vi(old(reader).inner@, old(reader).pos as int, 0) == vi(reader.inner@, reader.pos as int, n as int),
            fits(reader.inner@, reader.pos as int, n as int),
        invariant
            reader.pos <= reader.inner@.len(), reader.inner@ == old(reader).inner@,
            old(reader).pos <= reader.pos,
        ensures
            vi(old(reader).inner@, old(reader).pos as int, 0) == Some((n as int, reader.pos as int)),
        decreases reader.inner@.len() - reader.pos,
//@after `let ch_data =`
        assert(u64::MAX >> 7 == 0x1ff_ffff_ffff_ffffu64) by(bit_vector);
//@before `n = (n << 7)`
        proof { lemma_varint_step(n, ch_data); }
//@end

impl BlockIndexRecord {
//@extract fn src/blockchain/parser/index.rs :: impl BlockIndexRecord :: from
//@idiom I12 `key.try_into().expect("leveldb: malformed blockhash")`
//@spec
        requires
            //# pre:key_is_32_bytes
            key@.len() == 32,
            value_fits(values@),
        ensures
            //# C03:record_fields_are_the_varints_of_core_s_disk_index_in_order   (nFile / nDataPos only where Core stores them)
            match rec_of(key@, values@) {
                Some(s) => r is Ok && rec_view(r->Ok_0) == s,
                None => r is Err,
            },
//@before `let blk_index`
        assert(BLOCK_HAVE_DATA | BLOCK_HAVE_UNDO == 24u64) by(bit_vector) requires BLOCK_HAVE_DATA == 8u64, BLOCK_HAVE_UNDO == 16u64;
        assert(has_file(status as int) == (status & (BLOCK_HAVE_DATA | BLOCK_HAVE_UNDO) > 0));
        assert(has_pos(status as int) == (status & BLOCK_HAVE_DATA > 0));
        assert(status & 8u64 > 0 ==> status & 24u64 > 0) by(bit_vector);
//@end
}

//@extract fn src/blockchain/parser/index.rs :: - :: is_block_index_record
//@spec
    requires data@.len() > 0,
    ensures r == (data@[0] == 0x62),
//@end

//@extract fn src/blockchain/parser/index.rs :: - :: get_block_index
//@spec
    requires db_wf(db_at(path)),
    ensures
        //# C03,C04:index_is_select_of_the_leveldb_pairs
        r is Ok ==> select(db_at(path), db_at(path).len() as int) == Some(map_view(r->Ok_0.view())),
//@before `let (mut key`
    let ghost recs = db_at(path);
//@loop 1
        invariant
            db_iter.content@ == recs, recs == db_at(path), db_wf(recs),
            0 <= db_iter.pos@ <= recs.len(),
            //# C03,C04:inv_selected_prefix
            select(recs, db_iter.pos@) == Some(map_view(block_index.view())),
        decreases recs.len() - db_iter.pos@,
//@after `db_iter.current`
        let ghost m0 = block_index.view();
        assert(recs[db_iter.pos@ - 1].0 == key@ && recs[db_iter.pos@ - 1].1 == value@);
//@after `let record =`
            assert((4u64 | 8u64) == 12u64) by(bit_vector);
            assert(status_selected(record.status as int) == (record.status & (BLOCK_VALID_CHAIN | BLOCK_HAVE_DATA) > 0));
//@after `block_index.insert`
                assert(map_view(block_index.view()) =~= map_view(m0).insert(record.height, rec_view(record)));
//@end

/// C04 guard: a header-only record (validity below VALID_CHAIN, no block data) is never selected
pub proof fn lemma_header_only_never_selected(status: int)
    requires 0 <= status < 0x1_0000_0000_0000_0000, (status as u64) & 4u64 == 0, (status as u64) & 8u64 == 0,
    ensures !status_selected(status),
{
    let s = status as u64;
    assert(s & 4u64 == 0 && s & 8u64 == 0 ==> !(s & 12u64 > 0)) by(bit_vector);
}


// ---- C03: "independent of the byte width of heights, file numbers and offsets": Bitcoin Core's WriteVarInt
//      (MSB base-128, every byte but the last has 0x80 set, each prefix stores value-1) decodes back to n ------
/// bytes WriteVarInt emits BEFORE the last one for a value whose remaining quotient is m (all with 0x80 set)
pub open spec fn enc_pre(m: nat) -> Seq<u8>
    decreases m
{
    if m < 128 { seq![(m + 128) as u8] } else { enc_pre((m / 128 - 1) as nat) + seq![(m % 128 + 128) as u8] }
}
/// Bitcoin Core's VarInt encoding of n
pub open spec fn core_varint_enc(n: nat) -> Seq<u8> {
    if n < 128 { seq![n as u8] } else { enc_pre((n / 128 - 1) as nat) + seq![(n % 128) as u8] }
}
/// decoding the continuation bytes of m from accumulator 0 arrives at accumulator m + 1, consuming exactly them
pub proof fn lemma_dec_pre(m: nat, tail: Seq<u8>)
    requires m + 1 <= 0x1ff_ffff_ffff_ffff,
    ensures
        vi(enc_pre(m) + tail, 0, 0) == vi(enc_pre(m) + tail, enc_pre(m).len() as int, m as int + 1),
        fits(enc_pre(m) + tail, 0, 0) == fits(enc_pre(m) + tail, enc_pre(m).len() as int, m as int + 1),
        enc_pre(m).len() >= 1,
    decreases m
{
    let s = enc_pre(m) + tail;
    if m < 128 {
        assert(enc_pre(m) =~= seq![(m + 128) as u8]);
        assert(s[0] == (m + 128) as u8);
        assert(vi(s, 0, 0) == vi(s, 1, m as int + 1));
        assert(fits(s, 0, 0) == fits(s, 1, m as int + 1));
    } else {
        let q = (m / 128 - 1) as nat;
        let last = (m % 128 + 128) as u8;
        let t2 = seq![last] + tail;
        lemma_dec_pre(q, t2);
        assert(enc_pre(m) =~= enc_pre(q) + seq![last]);
        assert(enc_pre(q) + t2 =~= s);
        let p = enc_pre(q).len() as int;
        assert(s[p] == last);
        assert(vi(s, p, q as int + 1) == vi(s, p + 1, (q as int + 1) * 128 + (last as int) % 128 + 1));
        assert((q as int + 1) * 128 + (last as int) % 128 == m as int);
        assert(fits(s, p, q as int + 1) == fits(s, p + 1, m as int + 1));
        assert(enc_pre(m).len() == p + 1);
    }
}
/// round trip: read_varint's specification decodes WriteVarInt(n) to n, for every n < 2^64, consuming exactly the
/// encoding, and the no-overflow precondition `fits` holds -- whatever the number of bytes the value needs
pub proof fn lemma_core_varint_roundtrip(n: nat, tail: Seq<u8>)
    requires n <= u64::MAX,
    ensures
        //# C03:varint_width_independence
        vi(core_varint_enc(n) + tail, 0, 0) == Some((n as int, core_varint_enc(n).len() as int)),
        fits(core_varint_enc(n) + tail, 0, 0),
{
    let s = core_varint_enc(n) + tail;
    if n < 128 {
        assert(core_varint_enc(n) =~= seq![n as u8]);
        assert(s[0] == n as u8);
    } else {
        let q = (n / 128 - 1) as nat;
        let last = (n % 128) as u8;
        let t2 = seq![last] + tail;
        lemma_dec_pre(q, t2);
        assert(core_varint_enc(n) =~= enc_pre(q) + seq![last]);
        assert(enc_pre(q) + t2 =~= s);
        let p = enc_pre(q).len() as int;
        assert(s[p] == last);
        assert(vi(s, p, q as int + 1) == Some(((q as int + 1) * 128 + last as int, p + 1)));
        assert((q as int + 1) * 128 + last as int == n as int);
        assert(fits(s, p, q as int + 1));
        assert(core_varint_enc(n).len() == p + 1);
    }
}

} // verus!
fn main() {}
