// unit opreturn -- OpReturn::on_block (src/callbacks/opreturn.rs): the printing loop
//@unit props=C16 safety=C16
// C16 "prints one line carrying the block height, the txid and exactly the pushed payload, lines appearing in chain
// order ... an empty ... payload, and every output whose script type is not OP_RETURN, prints nothing".
// Which outputs get the pattern OpReturn(payload text) is proved in units script_btc / script_custom; this unit proves
// what on_block prints for them. stdout is an explicit ghost line log (idiom I21); the TEXT of a line is an
// uninterpreted function of (format string, height, txid, payload text).
use vstd::prelude::*;
verus! {
global size_of usize == 8;

#[allow(unused_macros)] macro_rules! info  { ($($t:tt)*) => { () } }
#[allow(unused_macros)] macro_rules! verif_println {
    ($o:ident, $f:expr, $a:expr, $b:expr, $c:expr) => { $o.line3($f, &$a, &$b, &$c) };
}
pub struct Error;
pub type Result<T> = core::result::Result<T, Error>;

//@include prelude/hashes.inc
//@include prelude/script_types.inc
//@include prelude/tx_types.inc

pub uninterp spec fn line3<A, B, C>(f: Seq<char>, a: A, b: B, c: C) -> Seq<char>;
pub struct Stdout { pub lines: Ghost<Seq<Seq<char>>> }
impl Stdout {
    /// println!: exactly one line is appended to the process's standard output
    #[verifier::external_body]
    pub fn line3<A, B, C>(&mut self, f: &str, a: &A, b: &B, c: &C)
        ensures final(self).lines@ == old(self).lines@.push(line3(f@, *a, *b, *c)),
    { unimplemented!() }
}

pub open spec fn op_fmt() -> Seq<char> { "height: {: <9} txid: {}    data: {}"@ }
/// the lines one output contributes: one for an OP_RETURN pattern with a non-empty payload text, none otherwise
pub open spec fn out_lines(h: u64, txid: sha256d::Hash, o: EvaluatedTxOut) -> Seq<Seq<char>> {
    match o.script.pattern {
        ScriptPattern::OpReturn(data) => if data@.len() == 0 { Seq::empty() } else { seq![line3(op_fmt(), h, &txid, &data)] },
        _ => Seq::empty(),
    }
}
pub open spec fn tx_lines(h: u64, tx: Hashed<EvaluatedTx>, n: int) -> Seq<Seq<char>>
    decreases n
{ if n <= 0 { Seq::empty() } else { tx_lines(h, tx, n - 1) + out_lines(h, tx.hash, tx.value.outputs@[n - 1]) } }
pub open spec fn block_lines(h: u64, txs: Seq<Hashed<EvaluatedTx>>, n: int) -> Seq<Seq<char>>
    decreases n
{ if n <= 0 { Seq::empty() } else { block_lines(h, txs, n - 1) + tx_lines(h, txs[n - 1], txs[n - 1].value.outputs@.len() as int) } }

//@extract type src/callbacks/opreturn.rs :: struct OpReturn
//@end

impl OpReturn {
//@extract fn src/callbacks/opreturn.rs :: impl Callback for OpReturn :: on_block
//@vis pub
//@idiom I16 `if data.is_empty() {`
//@idiom I21 `println!(`
//@spec
        ensures r is Ok,
//@before `for tx in &block.txs {`
        let mut stdout__ = Stdout { lines: Ghost(Seq::empty()) };
//@loop 1 label=it1
            invariant
                it1.seq().len() == block.txs@.len(), forall|k: int| 0 <= k < block.txs@.len() ==> it1.seq()[k] == &block.txs@[k],
                //# C16:inv_lines_of_the_transactions_seen_so_far_in_block_order
                stdout__.lines@ =~= block_lines(block_height, block.txs@, it1.index@ as int),
//@loop 2 label=it2
                invariant
                    it2.seq().len() == tx.value.outputs@.len(), forall|k: int| 0 <= k < tx.value.outputs@.len() ==> it2.seq()[k] == &tx.value.outputs@[k],
                    0 <= it1.index@ < block.txs@.len(), *tx == block.txs@[it1.index@ as int],
                    //# C16:inv_one_line_per_nonempty_opreturn_output_in_output_order
                    stdout__.lines@ =~= lines0 + tx_lines(block_height, *tx, it2.index@ as int),
//@before `for out in tx`
            let ghost lines0 = stdout__.lines@;
            assert(*tx == block.txs@[it1.index@ as int]);
            assert(lines0 + tx_lines(block_height, *tx, 0) =~= lines0);
//@before `if let ScriptPattern`
                let ghost l1 = stdout__.lines@;
                let ghost j = it2.index@ as int;
                assert(*out == tx.value.outputs@[j]);
                assert(lines0 + tx_lines(block_height, *tx, j + 1) =~= l1 + out_lines(block_height, tx.hash, *out));
//@before `Ok(())`
        //# C16:printed_lines_are_exactly_the_nonempty_opreturn_payloads_in_chain_order
        assert(stdout__.lines@ == block_lines(block_height, block.txs@, block.txs@.len() as int));
//@end
}

} // verus!
fn main() {}
