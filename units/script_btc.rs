// unit script_btc -- src/blockchain/proto/script/mod.rs: eval_from_bytes (dispatch),
//   eval_from_bytes_bitcoin, op_return_payload, p2pk_to_string, is_provable_unspendable
//@unit props=C05 safety=C05,C14
// The repository code is a cascade over rust-bitcoin predicates; each predicate is a shim whose
// byte-template contract is validated against the real crate by Kani (lane K, harnesses btc_*).
use vstd::prelude::*;
verus! {
global size_of usize == 8;
//@extract consts src/blockchain/proto/script/mod.rs
//@end

#[allow(unused_macros)] macro_rules! warn { ($($t:tt)*) => { () } }
#[allow(unused_macros)] macro_rules! format { ($fmt:expr, $a:expr) => { crate::fmt_address(&$a) } }
#[allow(unused_macros)] macro_rules! debug_assert { ($c:expr) => { crate::debug_assert_shim($c) } }

//@include prelude/opcodes.inc
//@include prelude/script_types.inc
//@include prelude/tokens.inc

pub mod opcodes { pub use super::ClassifyContext; pub use super::all; }
pub use Class::{IllegalOp, ReturnOp};

/// debug_assert!(c): panics in debug builds when c is false
pub fn debug_assert_shim(c: bool)
    requires c,   // SAFETY-SHIM
{ }

// ---- strings ------------------------------------------------------------------------------------------------
#[verifier::external_type_specification]
#[verifier::external_body]
pub struct ExFromUtf8Error(std::string::FromUtf8Error);
pub uninterp spec fn utf8_valid(b: Seq<u8>) -> bool;
pub uninterp spec fn utf8_decode(b: Seq<u8>) -> Seq<char>;
pub assume_specification [std::string::String::from_utf8] (v: std::vec::Vec<u8>) -> (r: std::result::Result<std::string::String, std::string::FromUtf8Error>)
    ensures r is Ok <==> utf8_valid(v@), r is Ok ==> r->Ok_0@ == utf8_decode(v@);
pub mod str_axioms {
    use vstd::prelude::*;
    use vstd::std_specs::convert::FromSpec;
    verus! {
    /// String::from(&str) copies the text
    pub broadcast proof fn axiom_string_from_str_obeys()
        ensures #[trigger] <String as FromSpec<&str>>::obeys_from_spec(),
    { admit(); }
    pub broadcast proof fn axiom_string_from_str(s: &str)
        ensures (#[trigger] <String as FromSpec<&str>>::from_spec(s))@ == s@,
    { admit(); }
    }
}
broadcast use {str_axioms::axiom_string_from_str_obeys, str_axioms::axiom_string_from_str};
/// <[u8]>::to_vec copies the slice (assumed std contract)
pub assume_specification<T: Clone> [ <[T]>::to_vec ] (s: &[T]) -> (r: Vec<T>)
    ensures r@.len() == s@.len(), forall|i: int| 0 <= i < s@.len() ==> vstd::pervasive::cloned(s@[i], #[trigger] r@[i]);
pub broadcast axiom fn axiom_cloned_u8(a: u8, b: u8)
    ensures #[trigger] vstd::pervasive::cloned(a, b) ==> a == b;
/// I2: X.to_bytes().into_iter().skip(N).collect()
#[verifier::external_body]
pub fn idiom_skip_collect(v: Vec<u8>, n: usize) -> (r: Vec<u8>) ensures r@ == v@.skip(n as int) { unimplemented!() }

// ---- rust-bitcoin: networks, addresses (encoders trusted), hashes ---------------------------------------
#[derive(Clone, Copy, PartialEq, Eq, Structural)]
pub enum Network { Bitcoin, Testnet }
pub uninterp spec fn hash160_spec(data: Seq<u8>) -> Seq<u8>;

/// what an address commits to; its text form (Base58Check / Bech32 / Bech32m with the network's
/// prefix and checksum) is produced by rust-bitcoin's Display impl -- trusted encoder
pub enum AddrSpec { P2pkh(Seq<u8>), P2sh(Seq<u8>), Segwit(int, Seq<u8>) }
pub uninterp spec fn addr_text(a: AddrSpec, net: Network) -> Seq<char>;
pub struct Address { pub a: Ghost<AddrSpec>, pub net: Ghost<Network> }
#[derive(PartialEq, Eq, Structural)]
pub enum FromScriptError { UnrecognizedScript, WitnessProgram, WitnessVersion }
pub use FromScriptError::UnrecognizedScript;
pub struct Hash160 { pub h: Ghost<Seq<u8>> }
pub struct Hash;
impl Hash {
    /// `Hash::hash(..)` in p2pk_to_string resolves to hash160 (PubkeyHash::from_raw_hash takes a hash160::Hash)
    #[verifier::external_body]
    pub fn hash(data: &[u8]) -> (r: Hash160) ensures r.h@ == hash160_spec(data@) { unimplemented!() }
}
pub struct PubkeyHash { pub h: Ghost<Seq<u8>> }
impl PubkeyHash {
    #[verifier::external_body]
    pub fn from_raw_hash(x: Hash160) -> (r: PubkeyHash) ensures r.h@ == x.h@ { unimplemented!() }
}
#[verifier::external_body]
pub fn fmt_address(a: &Address) -> (r: String) ensures r@ == addr_text(a.a@, a.net@) { unimplemented!() }

// ---- byte templates of the standard script types (the reference the property names) --------------
pub open spec fn t_p2pk(b: Seq<u8>) -> bool {
    (b.len() == 67 && b[0] == 65 && b[66] == 0xac) || (b.len() == 35 && b[0] == 33 && b[34] == 0xac)
}
pub open spec fn p2pk_key(b: Seq<u8>) -> Seq<u8> { b.subrange(1, b.len() - 1) }
pub open spec fn t_p2pkh(b: Seq<u8>) -> bool {
    b.len() == 25 && b[0] == 0x76 && b[1] == 0xa9 && b[2] == 0x14 && b[23] == 0x88 && b[24] == 0xac
}
pub open spec fn t_p2sh(b: Seq<u8>) -> bool { b.len() == 23 && b[0] == 0xa9 && b[1] == 0x14 && b[22] == 0x87 }
/// witness version of a witness program: version opcode OP_0 / OP_1..OP_16, then one push of 2..40 bytes, nothing else
pub open spec fn wit_ver(b: Seq<u8>) -> Option<int> {
    if 4 <= b.len() <= 42 && 2 <= b[1] <= 40 && b.len() - 2 == b[1] as int {
        if b[0] == 0 { Some(0int) } else if 0x51 <= b[0] <= 0x60 { Some(b[0] as int - 0x50) } else { None }
    } else { None }
}
pub open spec fn t_p2wpkh(b: Seq<u8>) -> bool { b.len() == 22 && wit_ver(b) == Some(0int) && b[1] == 0x14 }
pub open spec fn t_p2wsh(b: Seq<u8>) -> bool { b.len() == 34 && wit_ver(b) == Some(0int) && b[1] == 0x20 }
pub open spec fn t_p2tr(b: Seq<u8>) -> bool { b.len() == 34 && wit_ver(b) == Some(1int) && b[1] == 0x20 }
/// rust-bitcoin Script::is_multisig (CBMC cannot run it -- trusted): OP_m, k pushes, one opcode, OP_CHECKMULTISIG, with
/// m <= k, and k == n only checked when that opcode is OP_n
pub uninterp spec fn t_multisig_crate(b: Seq<u8>) -> bool;
/// bare m-of-n multisig of the property: the crate's template with a numeric n (the opcode in front of OP_CHECKMULTISIG)
pub open spec fn t_multisig(b: Seq<u8>) -> bool {
    t_multisig_crate(b) && b.len() >= 2 && 0x51 <= b[b.len() - 2] <= 0x60
}
/// first opcode makes the script unspendable (OP_RETURN-class or illegal opcode)
pub open spec fn t_unspendable(b: Seq<u8>) -> bool {
    b.len() > 0 && (class_of(b[0]) == Class::ReturnOp || class_of(b[0]) == Class::IllegalOp)
}
/// the address Address::from_script derives, if any
pub open spec fn script_addr(b: Seq<u8>) -> Option<AddrSpec> {
    if t_p2pkh(b) { Some(AddrSpec::P2pkh(b.subrange(3, 23))) }
    else if t_p2sh(b) { Some(AddrSpec::P2sh(b.subrange(2, 22))) }
    else { match wit_ver(b) {
        Some(v) => if v == 0 && b.len() != 22 && b.len() != 34 { None } else { Some(AddrSpec::Segwit(v, b.subrange(2, b.len() as int))) },
        None => None,
    } }
}

pub struct PushBytes { pub b: Vec<u8> }
impl PushBytes {
    pub fn as_bytes(&self) -> (r: &[u8]) ensures r@ == self.b@ { self.b.as_slice() }
}
pub enum Instruction<'a> { PushBytes(&'a PushBytes), Op(Opcode) }
pub struct ScriptErr;
pub open spec fn is_push_op(c: u8) -> bool { c <= 75 || c == 0x4c || c == 0x4d || c == 0x4e }
/// rust-bitcoin `Instructions` iterator (Script::instructions(), non-minimal pushes accepted)
pub struct Instructions<'a> { pub b: Ghost<Seq<u8>>, pub ip: Ghost<int>, pub failed: Ghost<bool>, pub keep: &'a Script }
impl<'a> Instructions<'a> {
    #[verifier::external_body]
    pub fn next(&mut self) -> (r: Option<Result<Instruction<'a>, ScriptErr>>)
        requires 0 <= old(self).ip@ <= old(self).b@.len(),
        ensures
            final(self).b@ == old(self).b@, 0 <= final(self).ip@ <= final(self).b@.len(),
            ({
                let b = old(self).b@; let ip = old(self).ip@;
                if old(self).failed@ || ip >= b.len() { r is None && final(self).ip@ == ip && final(self).failed@ == old(self).failed@ }
                else if is_push_op(b[ip]) {
                    match push_at(b, ip) {
                        Some((l, w)) => if ip + 1 + w + l <= b.len() {
                            r matches Some(Ok(Instruction::PushBytes(pb))) && pb.b@ == b.subrange(ip + 1 + w, ip + 1 + w + l)
                                && final(self).ip@ == ip + 1 + w + l && !final(self).failed@
                        } else { r matches Some(Err(_)) && final(self).failed@ },
                        None => r matches Some(Err(_)) && final(self).failed@,
                    }
                } else { r matches Some(Ok(Instruction::Op(op))) && op.code == b[ip] && final(self).ip@ == ip + 1 && !final(self).failed@ }
            }),
    { unimplemented!() }
}

pub struct Script { pub b: Vec<u8> }
impl Script {
    #[verifier::external_body]
    pub fn from_bytes(bytes: &[u8]) -> (r: &Script) ensures r.b@ == bytes@ { unimplemented!() }
    #[verifier::external_body]
    pub fn to_bytes(&self) -> (r: Vec<u8>) ensures r@ == self.b@ { unimplemented!() }
    pub fn as_bytes(&self) -> (r: &[u8]) ensures r@ == self.b@ { self.b.as_slice() }
    #[verifier::external_body]
    pub fn instructions(&self) -> (r: Instructions<'_>) ensures r.b@ == self.b@, r.ip@ == 0, !r.failed@ { unimplemented!() }
    #[verifier::external_body]
    pub fn is_op_return(&self) -> (r: bool) ensures r == (self.b@.len() > 0 && self.b@[0] == 0x6a) { unimplemented!() }
    #[verifier::external_body]
    pub fn is_p2pk(&self) -> (r: bool) ensures r == t_p2pk(self.b@) { unimplemented!() }
    #[verifier::external_body]
    pub fn is_p2pkh(&self) -> (r: bool) ensures r == t_p2pkh(self.b@) { unimplemented!() }
    #[verifier::external_body]
    pub fn is_p2sh(&self) -> (r: bool) ensures r == t_p2sh(self.b@) { unimplemented!() }
    #[verifier::external_body]
    pub fn is_p2wpkh(&self) -> (r: bool) ensures r == t_p2wpkh(self.b@) { unimplemented!() }
    #[verifier::external_body]
    pub fn is_p2wsh(&self) -> (r: bool) ensures r == t_p2wsh(self.b@) { unimplemented!() }
    #[verifier::external_body]
    pub fn is_p2tr(&self) -> (r: bool) ensures r == t_p2tr(self.b@) { unimplemented!() }
    #[verifier::external_body]
    pub fn is_witness_program(&self) -> (r: bool) ensures r == (wit_ver(self.b@) is Some) { unimplemented!() }
    #[verifier::external_body]
    pub fn is_multisig(&self) -> (r: bool) ensures r == t_multisig_crate(self.b@) { unimplemented!() }
}
impl Address {
    #[verifier::external_body]
    pub fn from_script(script: &Script, network: Network) -> (r: Result<Address, FromScriptError>)
        ensures match r {
            Ok(a) => script_addr(script.b@) == Some(a.a@) && a.net@ == network,
            Err(e) => script_addr(script.b@) is None
                && (e == UnrecognizedScript <==> !t_p2pkh(script.b@) && !t_p2sh(script.b@) && wit_ver(script.b@) is None),
        }
    { unimplemented!() }
    #[verifier::external_body]
    pub fn p2pkh(h: PubkeyHash, network: Network) -> (r: Address) ensures r.a@ == AddrSpec::P2pkh(h.h@), r.net@ == network { unimplemented!() }
    #[verifier::external_body]
    pub fn to_string(&self) -> (r: String) ensures r@ == addr_text(self.a@, self.net@) { unimplemented!() }
}

/// fork-coin evaluator: contract proved in unit script_custom
#[verifier::external_body]
pub fn eval_from_bytes_custom(bytes: &[u8], version_id: u8) -> (r: EvaluatedScript)
    requires bytes@.len() <= u32::MAX,
    ensures !(r.pattern is Error),
{ unimplemented!() }

impl EvaluatedScript {
//@extract fn src/blockchain/proto/script/mod.rs :: impl EvaluatedScript :: new
//@spec
        ensures r.address == address, r.pattern == pattern,
//@end
}

// ---- the reference rules of C05 / C16 for Bitcoin and testnet3 -------------------------------------------
pub open spec fn net_of(version_id: u8) -> Network { if version_id == 0x00 { Network::Bitcoin } else { Network::Testnet } }

/// `OP_RETURN <one data push> and nothing else`: Some(payload) for the direct and PUSHDATA1/2/4 forms
pub open spec fn single_push(b: Seq<u8>) -> Option<Seq<u8>> {
    if b.len() >= 2 && b[0] == 0x6a && is_push_op(b[1]) {
        match push_at(b, 1) {
            Some((l, w)) => if 2 + w + l == b.len() { Some(b.subrange(2 + w, b.len() as int)) } else { None },
            None => None,
        }
    } else { None }
}
pub open spec fn payload_text(p: Seq<u8>, s: String) -> bool {
    if utf8_valid(p) { s@ == utf8_decode(p) } else { s@ == Seq::<char>::empty() }
}
pub open spec fn addr_is(a: Option<String>, want: AddrSpec, net: Network) -> bool { a matches Some(s) && s@ == addr_text(want, net) }

/// the whole of C05 (+ the Bitcoin half of C16) for one script
pub open spec fn ref_btc_ok(res: EvaluatedScript, b: Seq<u8>, net: Network) -> bool {
    if b.len() > 0 && b[0] == 0x6a {
        // OP_RETURN: no address (the payload text is C16's clause, stated separately)
        res.address is None && res.pattern is OpReturn
    } else if t_unspendable(b) {
        res.address is None && res.pattern is Unspendable
    } else if t_p2pk(b) {
        res.pattern is Pay2PublicKey && addr_is(res.address, AddrSpec::P2pkh(hash160_spec(p2pk_key(b))), net)
    } else if t_p2pkh(b) {
        res.pattern is Pay2PublicKeyHash && addr_is(res.address, AddrSpec::P2pkh(b.subrange(3, 23)), net)
    } else if t_p2sh(b) {
        res.pattern is Pay2ScriptHash && addr_is(res.address, AddrSpec::P2sh(b.subrange(2, 22)), net)
    } else if t_p2wpkh(b) {
        res.pattern is Pay2WitnessPublicKeyHash && addr_is(res.address, AddrSpec::Segwit(0, b.subrange(2, 22)), net)
    } else if t_p2wsh(b) {
        res.pattern is Pay2WitnessScriptHash && addr_is(res.address, AddrSpec::Segwit(0, b.subrange(2, 34)), net)
    } else if t_p2tr(b) {
        res.pattern is Pay2Taproot && addr_is(res.address, AddrSpec::Segwit(1, b.subrange(2, 34)), net)
    } else if wit_ver(b) is Some {
        // any other witness program; version-0 programs of an illegal length have no address
        let v = wit_ver(b)->Some_0;
        res.pattern is WitnessProgram
            && (if v == 0 { res.address is None } else { addr_is(res.address, AddrSpec::Segwit(v, b.subrange(2, b.len() as int)), net) })
    } else if t_multisig(b) {
        res.pattern is Pay2MultiSig && res.address is None
    } else {
        res.pattern is NotRecognised && res.address is None
    }
}

//@extract fn src/blockchain/proto/script/mod.rs :: - :: eval_from_bytes
//@spec
    requires bytes@.len() <= u32::MAX,
    ensures
        //# C05:bitcoin_and_testnet3_use_the_reference_rules
        (version_id == 0x00 || version_id == 0x6f) ==> ref_btc_ok(r, bytes@, net_of(version_id)),
        //# C16:bitcoin_payload_is_exactly_the_pushed_data_dispatch
        (version_id == 0x00 || version_id == 0x6f) ==>
            (single_push(bytes@) matches Some(p) ==> (r.pattern matches ScriptPattern::OpReturn(s) && payload_text(p, s))),
        //# C14:evaluation_never_fails
        !(r.pattern is Error),
//@end

//@extract fn src/blockchain/proto/script/mod.rs :: - :: multisig_key_count_is_numeric
//@vis pub
//@spec
    ensures
        //# C05:multisig_needs_a_numeric_key_count
        r == (script.b@.len() >= 2 && 0x51 <= script.b@[script.b@.len() - 2] <= 0x60),
//@end

//@extract fn src/blockchain/proto/script/mod.rs :: - :: eval_from_bytes_bitcoin
//@idiom? I2 `script.to_bytes().into_iter().skip(2).collect()`
//@idiom I3 `data.unwrap_or_else(|_| String::from(""))`
//@spec
    requires
        //# pre:dispatch_guarantees_a_bitcoin_version_byte
        version_id == 0x00 || version_id == 0x6f,
    ensures
        //# C05:script_type_and_address_equal_reference
        ref_btc_ok(r, bytes@, net_of(version_id)),
        //# C16:bitcoin_payload_is_exactly_the_pushed_data
        single_push(bytes@) matches Some(p) ==> (r.pattern matches ScriptPattern::OpReturn(s) && payload_text(p, s)),
        !(r.pattern is Error),
//@before `let pattern =`
        proof { reveal_strlit(""); assert(""@ =~= Seq::<char>::empty()); }
//@end

//@extract? fn src/blockchain/proto/script/mod.rs :: - :: op_return_payload
//@idiom I2 `script.to_bytes().into_iter().skip(2).collect()`
//@spec
    requires script.b@.len() > 0, script.b@[0] == 0x6a,
    ensures
        //# C16:op_return_payload_is_the_pushed_data
        single_push(script.b@) matches Some(p) ==> r@ == p,
//@end

//@extract fn src/blockchain/proto/script/mod.rs :: - :: p2pk_to_string
//@spec
    requires t_p2pk(script.b@),
    ensures
        //# C05:p2pk_address_is_p2pkh_of_hash160_of_the_pushed_key
        addr_is(r, AddrSpec::P2pkh(hash160_spec(p2pk_key(script.b@))), network),
//@before `let pk = match`
    proof { lemma_le_bounds(); }
//@end

//@extract fn src/blockchain/proto/script/mod.rs :: - :: is_provable_unspendable
//@spec
    ensures r == t_unspendable(script.b@),
//@end

} // verus!
fn main() {}
