// unit merkle -- utils::merkle_root (src/common/utils.rs), Block::compute_merkle_root (src/blockchain/proto/block.rs)
//@unit props=C09 safety=C09
// C09 rests on "compute_merkle_root == the Bitcoin merkle root of the txids in block order" (unit chain assumes it).
// Here the level loop is under contract: pairing, duplication of the last hash on odd levels, iteration down to one
// hash.  The three iterator expressions are idioms (I25 pairs, I26 concat of two hashes, I27 txids) whose contracts
// are assumed in Verus and replayed by the bounded Kani harnesses utils_merkle_* on the real code.
use vstd::prelude::*;
verus! {
global size_of usize == 8;

//@include prelude/hashes.inc
//@include prelude/script_types.inc
//@include prelude/tx_types.inc

pub open spec fn h2(a: Seq<u8>, b: Seq<u8>) -> Seq<u8> { sha256d_spec(a + b) }
/// one level up: hash adjacent pairs; an odd last element is paired with itself
pub open spec fn level(s: Seq<Seq<u8>>) -> Seq<Seq<u8>> {
    Seq::new(((s.len() + 1) / 2) as nat, |i: int| if 2 * i + 1 < s.len() { h2(s[2 * i], s[2 * i + 1]) } else { h2(s[2 * i], s[2 * i]) })
}
/// Bitcoin merkle root of a non-empty list of 32-byte hashes
pub open spec fn merkle_spec(s: Seq<Seq<u8>>) -> Seq<u8>
    decreases s.len()
{ if s.len() <= 1 { s[0] } else { merkle_spec(level(s)) } }
pub open spec fn views(hs: Seq<sha256d::Hash>) -> Seq<Seq<u8>> { Seq::new(hs.len(), |i: int| hs[i].0@) }

/// I25: `X.chunks(2).filter(|c| c.len() == 2).map(|c| sha256d::Hash::hash(&[c[0], c[1]].concat())).collect()`
#[verifier::external_body]
pub fn idiom_hash_pairs(x: &Vec<sha256d::Hash>) -> (r: Vec<sha256d::Hash>)
    ensures r@.len() == x@.len() / 2, forall|i: int| 0 <= i < r@.len() ==> (#[trigger] r@[i]).0@ == h2(x@[2 * i].0@, x@[2 * i + 1].0@),
{ unimplemented!() }
/// I26: `[&A[..], &B[..]].concat()`: the 64 bytes of two hashes
#[verifier::external_body]
pub fn idiom_concat_hashes(a: &sha256d::Hash, b: &sha256d::Hash) -> (r: Vec<u8>)
    ensures r@ == a.0@ + b.0@,
{ unimplemented!() }
/// I27: `X.iter().map(|tx| tx.hash).collect()`
#[verifier::external_body]
pub fn idiom_tx_hashes(x: &Vec<Hashed<EvaluatedTx>>) -> (r: Vec<sha256d::Hash>)
    ensures r@.len() == x@.len(), forall|i: int| 0 <= i < r@.len() ==> r@[i] == (#[trigger] x@[i]).hash,
{ unimplemented!() }

pub mod utils {
use vstd::prelude::*;
use super::*;
verus! {
//@extract fn src/common/utils.rs :: - :: merkle_root
//@idiom I25 `hashes .chunks(2) .filter(|c| c.len() == 2) .map(|c| sha256d::Hash::hash(&[c[0], c[1]].concat())) .collect::<Vec<sha256d::Hash>>()`
//@idiom I26 `[&last_hash[..], &last_hash[..]].concat()`
//@spec
    requires
        //# pre:at_least_one_hash   (a block has a coinbase; `expect` panics on an empty list)
        hashes@.len() >= 1,
    ensures
        //# C09:merkle_root_is_the_bitcoin_merkle_tree_of_the_hashes
        r.0@ == merkle_spec(views(hashes@)),
//@before `let mut hashes = hashes;`
    let ghost orig = hashes@;
//@loop 1
        invariant
            hashes@.len() >= 1,
            //# C09:inv_each_round_replaces_the_list_by_its_next_level
            merkle_spec(views(hashes@)) == merkle_spec(views(orig)),
        decreases hashes@.len(),
//@before `hashes = new_hashes;`
        //# C09:next_level_pairs_adjacent_hashes_and_duplicates_an_odd_last_one
        assert(views(new_hashes@) =~= level(views(hashes@)));
//@end
}
}

impl Block {
//@extract fn src/blockchain/proto/block.rs :: impl Block :: compute_merkle_root
//@idiom I27 `self .txs .iter() .map(|tx| tx.hash) .collect::<Vec<sha256d::Hash>>()`
//@spec
        requires self.txs@.len() >= 1,
        ensures
            //# C09:computed_root_is_the_merkle_tree_of_the_txids_in_block_order
            r.0@ == merkle_spec(Seq::new(self.txs@.len(), |i: int| self.txs@[i].hash.0@)),
//@before `utils::merkle_root`
        assert(views(hashes@) =~= Seq::new(self.txs@.len(), |i: int| self.txs@[i].hash.0@));
//@end
}

} // verus!
fn main() {}
