// unit csvdump -- CsvDump::{on_start, on_block} (src/callbacks/csvdump.rs): row emission and totals
//@unit props=C01 safety=C01
// C01 "exactly one row per processed block, transaction, input and output, in chain order ... totals equal the rows
// written": the four writers are seen through a ghost log of the byte strings written to them; the row TEXT
// (as_csv: format!/Display) is an uninterpreted function of the item -- its rendering is trusted / replayed by lane N.
use vstd::prelude::*;
verus! {
global size_of usize == 8;
//@extract consts src/callbacks/csvdump.rs
//@end

#[allow(unused_macros)] macro_rules! info  {
    (target: $t:expr, $f:expr, $a:expr, $b:expr, $c:expr, $d:expr, $e:expr) => { crate::log_summary($f, $a, $b, $c, $d, $e) };
    ($($t:tt)*) => { () }
}
#[allow(unused_macros)] macro_rules! debug { ($($t:tt)*) => { () } }
#[allow(unused_macros)] macro_rules! format {
    ("{}", $a:expr) => { crate::fmt_hash($a) };
    ("{}.csv.tmp", $a:expr) => { crate::fmt_tmp("{}.csv.tmp", $a) };
    ($fmt:expr, $a:expr, $b:expr, $c:expr) => { crate::fmt_name($fmt, $a, $b, $c) };
}

pub struct Error;
pub type Result<T> = core::result::Result<T, Error>;

//@include prelude/hashes.inc
//@include prelude/script_types.inc
//@include prelude/tx_types.inc

//@include prelude/writer.inc
/// the text of a row / of a hash (format!, Display): uninterpreted -- decided for bounded inputs by lane N
pub uninterp spec fn hash_text(h: sha256d::Hash) -> Seq<char>;
pub uninterp spec fn block_row(b: Block, height: u64) -> Seq<u8>;
pub uninterp spec fn tx_row(t: Hashed<EvaluatedTx>, block_hash: Seq<char>) -> Seq<u8>;
pub uninterp spec fn in_row(i: TxInput, txid: Seq<char>) -> Seq<u8>;
pub uninterp spec fn out_row(o: EvaluatedTxOut, txid: Seq<char>, index: u32) -> Seq<u8>;
#[verifier::external_body]
pub fn fmt_hash(h: &sha256d::Hash) -> (r: String) ensures r@ == hash_text(*h) { unimplemented!() }
impl Block {
    #[verifier::external_body]
    pub fn as_csv(&self, block_height: u64) -> (r: Row) ensures r.bytes@ == block_row(*self, block_height) { unimplemented!() }
}
impl Hashed<EvaluatedTx> {
    #[verifier::external_body]
    pub fn as_csv(&self, block_hash: &String) -> (r: Row) ensures r.bytes@ == tx_row(*self, block_hash@) { unimplemented!() }
}
impl TxInput {
    #[verifier::external_body]
    pub fn as_csv(&self, txid: &String) -> (r: Row) ensures r.bytes@ == in_row(*self, txid@) { unimplemented!() }
}
impl EvaluatedTxOut {
    #[verifier::external_body]
    pub fn as_csv(&self, txid: &String, index: u32) -> (r: Row) ensures r.bytes@ == out_row(*self, txid@, index) { unimplemented!() }
}

// ---- the rows csvdump must write for a block (from the property statement) ------------------------------------
pub open spec fn in_rows(ins: Seq<TxInput>, txid: Seq<char>, n: int) -> Seq<Seq<u8>>
    decreases n
{ if n <= 0 { Seq::empty() } else { in_rows(ins, txid, n - 1).push(in_row(ins[n - 1], txid)) } }
pub open spec fn out_rows(outs: Seq<EvaluatedTxOut>, txid: Seq<char>, n: int) -> Seq<Seq<u8>>
    decreases n
{ if n <= 0 { Seq::empty() } else { out_rows(outs, txid, n - 1).push(out_row(outs[n - 1], txid, (n - 1) as u32)) } }
pub open spec fn tx_rows(txs: Seq<Hashed<EvaluatedTx>>, bh: Seq<char>, n: int) -> Seq<Seq<u8>>
    decreases n
{ if n <= 0 { Seq::empty() } else { tx_rows(txs, bh, n - 1).push(tx_row(txs[n - 1], bh)) } }
pub open spec fn all_in_rows(txs: Seq<Hashed<EvaluatedTx>>, n: int) -> Seq<Seq<u8>>
    decreases n
{ if n <= 0 { Seq::empty() } else { all_in_rows(txs, n - 1) + in_rows(txs[n - 1].value.inputs@, hash_text(txs[n - 1].hash), txs[n - 1].value.inputs@.len() as int) } }
pub open spec fn all_out_rows(txs: Seq<Hashed<EvaluatedTx>>, n: int) -> Seq<Seq<u8>>
    decreases n
{ if n <= 0 { Seq::empty() } else { all_out_rows(txs, n - 1) + out_rows(txs[n - 1].value.outputs@, hash_text(txs[n - 1].hash), txs[n - 1].value.outputs@.len() as int) } }
pub open spec fn sum_in_counts(txs: Seq<Hashed<EvaluatedTx>>, n: int) -> int
    decreases n
{ if n <= 0 { 0 } else { sum_in_counts(txs, n - 1) + txs[n - 1].value.in_count.value } }
pub open spec fn sum_out_counts(txs: Seq<Hashed<EvaluatedTx>>, n: int) -> int
    decreases n
{ if n <= 0 { 0 } else { sum_out_counts(txs, n - 1) + txs[n - 1].value.out_count.value } }

/// the completion summary (info!): the five values it is given, in order (its text is an uninterpreted function of them)
pub uninterp spec fn summary_logged(start: u64, last: u64, txs: u64, ins: u64, outs: u64) -> bool;
#[verifier::external_body]
pub fn log_summary(f: &str, start: u64, last: u64, txs: u64, ins: u64, outs: u64)
    ensures summary_logged(start, last, txs, ins, outs),
{ unimplemented!() }
pub struct FileName { pub s: String }
#[verifier::external_body]
pub fn fmt_name(f: &str, a: &str, b: u64, c: u64) -> (r: FileName) { unimplemented!() }
#[verifier::external_body]
pub fn fmt_tmp(f: &str, a: &str) -> (r: FileName) { unimplemented!() }
impl PathBuf {
    #[verifier::external_body] pub fn as_path(&self) -> (r: &PathBuf) { unimplemented!() }
    #[verifier::external_body] pub fn join(&self, t: FileName) -> (r: PathBuf) { unimplemented!() }
}
pub mod fs {
    use vstd::prelude::*;
    verus! {
    #[verifier::external_body] pub fn rename(a: crate::PathBuf, b: crate::PathBuf) -> (r: crate::Result<()>) { unimplemented!() }
    }
}

pub trait Callback {
    spec fn on_block_pre(&self, block: &Block) -> bool;
    fn on_complete(&mut self, block_height: u64) -> (r: Result<()>);
    fn on_start(&mut self, block_height: u64) -> (r: Result<()>);
    fn on_block(&mut self, block: &Block, block_height: u64) -> (r: Result<()>)
        requires old(self).on_block_pre(block);
}

//@extract type src/callbacks/csvdump.rs :: struct CsvDump
//@end

pub proof fn lemma_counts_mono(txs: Seq<Hashed<EvaluatedTx>>, n: int)
    requires 0 <= n <= txs.len(),
    ensures forall|k: int| 0 <= k <= n ==> 0 <= #[trigger] sum_in_counts(txs, k) <= sum_in_counts(txs, n),
        forall|k: int| 0 <= k <= n ==> 0 <= #[trigger] sum_out_counts(txs, k) <= sum_out_counts(txs, n),
    decreases n
{
    if n > 0 {
        lemma_counts_mono(txs, n - 1);
        assert(sum_in_counts(txs, n) == sum_in_counts(txs, n - 1) + txs[n - 1].value.in_count.value);
        assert(sum_out_counts(txs, n) == sum_out_counts(txs, n - 1) + txs[n - 1].value.out_count.value);
    } else { assert(sum_in_counts(txs, 0) == 0 && sum_out_counts(txs, 0) == 0); }
}

impl Callback for CsvDump {
    /// counters stay below 2^64; fewer than 2^32 outputs per transaction (parser: unit reader)
    open spec fn on_block_pre(&self, block: &Block) -> bool {
        &&& self.tx_count + block.tx_count.value <= u64::MAX
        &&& self.in_count + sum_in_counts(block.txs@, block.txs@.len() as int) <= u64::MAX
        &&& self.out_count + sum_out_counts(block.txs@, block.txs@.len() as int) <= u64::MAX
        &&& forall|k: int| 0 <= k < block.txs@.len() ==> (#[trigger] block.txs@[k]).value.outputs@.len() <= u32::MAX
    }
//@extract fn src/callbacks/csvdump.rs :: impl Callback for CsvDump :: on_start
//@vis none
//@spec
        ensures
            //# C01:start_height_is_the_first_processed_height
            r is Ok, final(self).start_height == block_height,
            final(self).tx_count == old(self).tx_count, final(self).in_count == old(self).in_count, final(self).out_count == old(self).out_count,
            final(self).block_writer == old(self).block_writer, final(self).tx_writer == old(self).tx_writer,
            final(self).txin_writer == old(self).txin_writer, final(self).txout_writer == old(self).txout_writer,
//@end
//@extract fn src/callbacks/csvdump.rs :: impl Callback for CsvDump :: on_complete
//@vis none
//@idiom I30 loop 1
//@spec
        ensures
            //# C01:totals_printed_on_completion_are_the_three_counters
            r is Ok ==> summary_logged(old(self).start_height, block_height, old(self).tx_count, old(self).in_count, old(self).out_count),
            final(self).tx_count == old(self).tx_count, final(self).in_count == old(self).in_count, final(self).out_count == old(self).out_count,
//@loop 1
            invariant self.tx_count == old(self).tx_count, self.in_count == old(self).in_count, self.out_count == old(self).out_count, self.start_height == old(self).start_height,
//@end
//@extract fn src/callbacks/csvdump.rs :: impl Callback for CsvDump :: on_block
//@vis none
//@idiom I1 loop 3
//@spec
        ensures
            r is Ok ==> {
                let bh = hash_text(block.header.hash);
                let n = block.txs@.len() as int;
                //# C01:one_block_row
                &&& final(self).block_writer.log@ == old(self).block_writer.log@.push(block_row(*block, block_height))
                //# C01:one_row_per_transaction_in_block_order
                &&& final(self).tx_writer.log@ == old(self).tx_writer.log@ + tx_rows(block.txs@, bh, n)
                //# C01:one_row_per_input_in_order
                &&& final(self).txin_writer.log@ == old(self).txin_writer.log@ + all_in_rows(block.txs@, n)
                //# C01:one_row_per_output_in_order_with_its_index
                &&& final(self).txout_writer.log@ == old(self).txout_writer.log@ + all_out_rows(block.txs@, n)
                //# C01:totals_are_the_declared_counts
                &&& final(self).tx_count == old(self).tx_count + block.tx_count.value
                &&& final(self).in_count == old(self).in_count + sum_in_counts(block.txs@, n)
                &&& final(self).out_count == old(self).out_count + sum_out_counts(block.txs@, n)
                &&& final(self).start_height == old(self).start_height
            },
//@before `let block_hash`
        let ghost txs = block.txs@;
        let ghost nt = txs.len() as int;
        proof { lemma_counts_mono(txs, nt); }
//@loop 1 label=it1
            invariant
                it1.seq().len() == block.txs@.len(), forall|k: int| 0 <= k < block.txs@.len() ==> it1.seq()[k] == &block.txs@[k],
                txs == block.txs@, nt == txs.len(), block_hash@ == hash_text(block.header.hash),
                forall|k: int| 0 <= k < txs.len() ==> (#[trigger] txs[k]).value.outputs@.len() <= u32::MAX,
                forall|k: int| 0 <= k <= nt ==> 0 <= #[trigger] sum_in_counts(txs, k) <= sum_in_counts(txs, nt),
                forall|k: int| 0 <= k <= nt ==> 0 <= #[trigger] sum_out_counts(txs, k) <= sum_out_counts(txs, nt),
                old(self).in_count + sum_in_counts(txs, nt) <= u64::MAX, old(self).out_count + sum_out_counts(txs, nt) <= u64::MAX,
                old(self).tx_count + block.tx_count.value <= u64::MAX,
                self.block_writer.log@ == old(self).block_writer.log@.push(block_row(*block, block_height)),
                self.tx_writer.log@ == old(self).tx_writer.log@ + tx_rows(txs, block_hash@, it1.index@ as int),
                self.txin_writer.log@ == old(self).txin_writer.log@ + all_in_rows(txs, it1.index@ as int),
                self.txout_writer.log@ == old(self).txout_writer.log@ + all_out_rows(txs, it1.index@ as int),
                self.in_count == old(self).in_count + sum_in_counts(txs, it1.index@ as int),
                self.out_count == old(self).out_count + sum_out_counts(txs, it1.index@ as int),
                self.tx_count == old(self).tx_count, self.start_height == old(self).start_height,
//@before `self.tx_writer`
            let ghost j = it1.index@ as int;
            let ghost tw0 = self.tx_writer.log@;
            let ghost iw0 = self.txin_writer.log@;
            let ghost ow0 = self.txout_writer.log@;
            assert(*tx == txs[j]);
//@after `let txid_str`
            assert(self.tx_writer.log@ =~= old(self).tx_writer.log@ + tx_rows(txs, block_hash@, j + 1));
            assert(sum_in_counts(txs, j + 1) == sum_in_counts(txs, j) + tx.value.in_count.value);
            assert(sum_in_counts(txs, j + 1) <= sum_in_counts(txs, nt));
//@loop 2 label=it2
                invariant
                    it2.seq().len() == tx.value.inputs@.len(), forall|k: int| 0 <= k < tx.value.inputs@.len() ==> it2.seq()[k] == &tx.value.inputs@[k],
                    txid_str@ == hash_text(tx.hash),
                    self.txin_writer.log@ == iw0 + in_rows(tx.value.inputs@, txid_str@, it2.index@ as int),
                    self.block_writer == old_bw, self.tx_writer.log@ == tw1, self.txout_writer.log@ == ow0,
                    self.in_count == ic0, self.out_count == oc0, self.tx_count == old(self).tx_count, self.start_height == old(self).start_height,
//@before `for input in`
            let ghost old_bw = self.block_writer;
            let ghost tw1 = self.tx_writer.log@;
            let ghost ic0 = self.in_count;
            let ghost oc0 = self.out_count;
            assert(iw0 + in_rows(tx.value.inputs@, txid_str@, 0) =~= iw0);
//@before `for (i, output) in`
            let ghost iw1 = self.txin_writer.log@;
            let ghost ic1 = self.in_count;
            assert(iw1 =~= old(self).txin_writer.log@ + all_in_rows(txs, j + 1));
            assert(ow0 + out_rows(tx.value.outputs@, txid_str@, 0) =~= ow0);
//@loop 3
                invariant
                    txid_str@ == hash_text(tx.hash), tx.value.outputs@.len() <= u32::MAX,
                    self.txout_writer.log@ == ow0 + out_rows(tx.value.outputs@, txid_str@, i as int),
                    self.block_writer == old_bw, self.tx_writer.log@ == tw1, self.txin_writer.log@ == iw1,
                    self.in_count == ic1, self.out_count == oc0, self.tx_count == old(self).tx_count, self.start_height == old(self).start_height,
//@before `self.out_count`
            assert(sum_out_counts(txs, j + 1) == sum_out_counts(txs, j) + tx.value.out_count.value);
            assert(sum_out_counts(txs, j + 1) <= sum_out_counts(txs, nt));
            assert(self.txout_writer.log@ =~= old(self).txout_writer.log@ + all_out_rows(txs, j + 1));
//@end
}

/// what unit reader proves about every parsed block: the vectors have the declared lengths
pub open spec fn counts_match(b: Block) -> bool {
    &&& b.txs@.len() == b.tx_count.value
    &&& forall|k: int| 0 <= k < b.txs@.len() ==> (#[trigger] b.txs@[k]).value.inputs@.len() == b.txs@[k].value.in_count.value
            && b.txs@[k].value.outputs@.len() == b.txs@[k].value.out_count.value
}
pub proof fn lemma_row_counts(txs: Seq<Hashed<EvaluatedTx>>, bh: Seq<char>, n: int)
    requires 0 <= n <= txs.len(),
        forall|k: int| 0 <= k < txs.len() ==> (#[trigger] txs[k]).value.inputs@.len() == txs[k].value.in_count.value
            && txs[k].value.outputs@.len() == txs[k].value.out_count.value,
    ensures tx_rows(txs, bh, n).len() == n, all_in_rows(txs, n).len() == sum_in_counts(txs, n), all_out_rows(txs, n).len() == sum_out_counts(txs, n),
    decreases n
{
    if n > 0 {
        lemma_row_counts(txs, bh, n - 1);
        lemma_in_rows_len(txs[n - 1].value.inputs@, hash_text(txs[n - 1].hash), txs[n - 1].value.inputs@.len() as int);
        lemma_out_rows_len(txs[n - 1].value.outputs@, hash_text(txs[n - 1].hash), txs[n - 1].value.outputs@.len() as int);
    }
}
pub proof fn lemma_in_rows_len(ins: Seq<TxInput>, t: Seq<char>, n: int)
    requires 0 <= n ensures in_rows(ins, t, n).len() == n decreases n
{ if n > 0 { lemma_in_rows_len(ins, t, n - 1); } }
pub proof fn lemma_out_rows_len(outs: Seq<EvaluatedTxOut>, t: Seq<char>, n: int)
    requires 0 <= n ensures out_rows(outs, t, n).len() == n decreases n
{ if n > 0 { lemma_out_rows_len(outs, t, n - 1); } }

/// C01 "the transaction/input/output totals printed on completion equal the rows written": one on_block step adds to each
/// counter exactly the number of rows it appended to the matching file (on_complete prints the three counters)
pub proof fn lemma_totals_equal_rows_written(before: CsvDump, after: CsvDump, block: Block, bh: Seq<char>)
    requires
        counts_match(block),
        after.tx_writer.log@ == before.tx_writer.log@ + tx_rows(block.txs@, bh, block.txs@.len() as int),
        after.txin_writer.log@ == before.txin_writer.log@ + all_in_rows(block.txs@, block.txs@.len() as int),
        after.txout_writer.log@ == before.txout_writer.log@ + all_out_rows(block.txs@, block.txs@.len() as int),
        after.tx_count == before.tx_count + block.tx_count.value,
        after.in_count == before.in_count + sum_in_counts(block.txs@, block.txs@.len() as int),
        after.out_count == before.out_count + sum_out_counts(block.txs@, block.txs@.len() as int),
    ensures
        //# C01:totals_equal_rows_written
        after.tx_count - before.tx_count == after.tx_writer.log@.len() - before.tx_writer.log@.len(),
        after.in_count - before.in_count == after.txin_writer.log@.len() - before.txin_writer.log@.len(),
        after.out_count - before.out_count == after.txout_writer.log@.len() - before.txout_writer.log@.len(),
{
    lemma_row_counts(block.txs@, bh, block.txs@.len() as int);
}

} // verus!
fn main() {}
