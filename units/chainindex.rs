// unit chainindex -- ChainIndex::new (src/blockchain/parser/index.rs) + BlockHeightRange (src/main.rs)
//@unit props=C02,C09,C17 safety=C02
// What C02 / C09 / C17 assumed about the loaded index, now under contract:
//   max_height == min(--end, tip);  the trimmed index keeps exactly start-1 ..= max_height;
//   max_height_blk_index[f] is the largest height stored in blk file f.
use vstd::prelude::*;
verus! {
global size_of usize == 8;
//@extract consts src/blockchain/parser/index.rs
//@end

#[allow(unused_macros)] macro_rules! info { ($($t:tt)*) => { () } }

pub struct Error;
pub type Result<T> = core::result::Result<T, Error>;
impl From<&str> for Error { #[verifier::external_body] fn from(s: &str) -> Error { unimplemented!() } }

//@include prelude/hashes.inc
//@include prelude/hashmap.inc

impl<V> HashMap<u64, V> {
    #[verifier::external_body]
    pub fn new() -> (r: Self) ensures r.view() == Map::<u64, V>::empty() { unimplemented!() }
}

/// the entries of a std HashMap in the order its iterator yields them: every entry once, order unspecified
pub open spec fn entries_ok<V>(es: Seq<(u64, &V)>, m: Map<u64, V>) -> bool {
    &&& forall|i: int| 0 <= i < es.len() ==> m.contains_key((#[trigger] es[i]).0) && *es[i].1 == m[es[i].0]
    &&& forall|k: u64| m.contains_key(k) ==> exists|i: int| 0 <= i < es.len() && (#[trigger] es[i]).0 == k
    &&& forall|i: int, j: int| 0 <= i < j < es.len() ==> (#[trigger] es[i]).0 != (#[trigger] es[j]).0
}
/// I17: `for (k, v) in &map`
#[verifier::external_body]
pub fn idiom_map_entries<'a, V>(m: &'a HashMap<u64, V>) -> (r: Vec<(u64, &'a V)>)
    ensures entries_ok(r@, m.view()),
{ unimplemented!() }
/// I18: `*map.keys().max().unwrap()`
#[verifier::external_body]
pub fn idiom_max_key<V>(m: &HashMap<u64, V>) -> (r: u64)
    requires exists|k: u64| m.view().contains_key(k),   // SAFETY-SHIM: unwrap() on an empty index panics
    ensures m.view().contains_key(r), forall|k: u64| m.view().contains_key(k) ==> k <= r,
{ unimplemented!() }
/// I19: `map.retain(|k, _| *k >= lo && *k <= hi)`
#[verifier::external_body]
pub fn idiom_retain_key_range<V>(m: &mut HashMap<u64, V>, lo: u64, hi: u64)
    ensures final(m).view() == old(m).view().restrict(old(m).view().dom().filter(|k: u64| lo <= k <= hi)),
{ unimplemented!() }

// ---- command-line options as far as the index sees them -------------------------------------------------
//@extract type src/main.rs :: struct BlockHeightRange
//@end
impl BlockHeightRange {
//@extract fn src/main.rs :: impl BlockHeightRange :: new
//@spec
        ensures
            //# C02:start_must_be_below_end
            r is Ok <==> !(end is Some && start >= end->Some_0),
            r is Ok ==> r->Ok_0.start == start && r->Ok_0.end == end,
//@end
//@extract fn src/main.rs :: impl BlockHeightRange :: is_default
//@spec
        ensures r == (self.start == 0 && self.end is None),
//@end
}
#[verifier::external_body] pub struct PathBuf { p: std::path::PathBuf }
impl PathBuf {
    #[verifier::external_body]
    pub fn join(&self, s: &str) -> (r: PathBuf) { unimplemented!() }
}
/// ParserOptions: only the two fields ChainIndex::new reads (the real struct also holds the callback, coin, verify flag, log level)
pub struct ParserOptions { pub blockchain_dir: PathBuf, pub range: BlockHeightRange }

//@extract type src/blockchain/parser/index.rs :: struct BlockIndexRecord
//@end
//@extract type src/blockchain/parser/index.rs :: struct ChainIndex
//@end

/// the block index stored under a data directory (get_block_index: unit index proves it equals select(LevelDB pairs))
pub uninterp spec fn index_at(dir: &PathBuf) -> Map<u64, BlockIndexRecord>;
#[verifier::external_body]
pub fn get_block_index(path: &PathBuf) -> (r: Result<HashMap<u64, BlockIndexRecord>>)
    ensures r is Ok ==> exists|dir: &PathBuf| r->Ok_0.view() == #[trigger] index_at(dir),
{ unimplemented!() }

/// h is the largest height whose block is stored in blk file f
pub open spec fn file_max(idx: Map<u64, BlockIndexRecord>, f: u64, h: u64) -> bool {
    idx.contains_key(h) && idx[h].blk_index == f && forall|h2: u64| idx.contains_key(h2) && (#[trigger] idx[h2]).blk_index == f ==> h2 <= h
}
pub open spec fn is_tip(idx: Map<u64, BlockIndexRecord>, t: u64) -> bool {
    idx.contains_key(t) && forall|k: u64| idx.contains_key(k) ==> k <= t
}
/// what ChainIndex::new must produce from the untrimmed index idx0 and the range
pub open spec fn index_ok(ci: ChainIndex, idx0: Map<u64, BlockIndexRecord>, range: BlockHeightRange) -> bool {
    &&& exists|t: u64| #[trigger] is_tip(idx0, t) && ci.max_height == (if range.end is Some && range.end->Some_0 < t { range.end->Some_0 } else { t })
    //# C02,C09:trimmed_index_keeps_start_minus_1_to_max_height
    &&& (if range.start == 0 && range.end is None { ci.block_index.view() == idx0 }
         else { ci.block_index.view() == idx0.restrict(idx0.dom().filter(|k: u64| (if range.start > 0 { (range.start - 1) as u64 } else { 0u64 }) <= k <= ci.max_height)) })
    //# C17:per_file_maximum_heights
    &&& forall|f: u64| ci.max_height_blk_index.view().contains_key(f) ==> file_max(idx0, f, #[trigger] ci.max_height_blk_index.view()[f])
    &&& forall|h: u64| idx0.contains_key(h) ==> ci.max_height_blk_index.view().contains_key((#[trigger] idx0[h]).blk_index)
}

impl ChainIndex {
//@extract fn src/blockchain/parser/index.rs :: impl ChainIndex :: new
//@idiom I17 loop 1
//@idiom I18 `*block_index.keys().max().unwrap()`
//@idiom I19 `block_index.retain(`
//@spec
        requires
            //# pre:index_not_empty   (a data directory holds at least the genesis block; `keys().max().unwrap()` panics otherwise)
            forall|dir: &PathBuf| exists|k: u64| (#[trigger] index_at(dir)).contains_key(k),
        ensures
            //# C02,C09,C17:loaded_index_is_what_the_driver_assumes
            r is Ok ==> exists|dir: &PathBuf| index_ok(r->Ok_0, #[trigger] index_at(dir), options.range),
//@after `let mut block_index`
        let ghost idx0 = block_index.view();
        let ghost dir0 = choose|dir: &PathBuf| idx0 == index_at(dir);
//@loop 1
            invariant
                block_index.view() == idx0, entries_ok(es__block_index@, idx0),
                //# C17:inv_per_file_maximum_over_the_entries_seen_so_far
                forall|f: u64| max_height_blk_index.view().contains_key(f) ==> (exists|j: int| 0 <= j < i__block_index && (#[trigger] es__block_index@[j]).0 == max_height_blk_index.view()[f] && es__block_index@[j].1.blk_index == f),
                forall|j: int| 0 <= j < i__block_index ==> max_height_blk_index.view().contains_key((#[trigger] es__block_index@[j]).1.blk_index)
                    && es__block_index@[j].0 <= max_height_blk_index.view()[es__block_index@[j].1.blk_index],
//@before `let min_height`
        proof {
            let es = es__block_index@;
            let mhb = max_height_blk_index.view();
            assert forall|f: u64| mhb.contains_key(f) implies file_max(idx0, f, #[trigger] mhb[f]) by {
                let j = choose|j: int| 0 <= j < es.len() && (#[trigger] es[j]).0 == mhb[f] && es[j].1.blk_index == f;
                assert(idx0.contains_key(es[j].0) && *es[j].1 == idx0[es[j].0]);
                assert forall|h2: u64| idx0.contains_key(h2) && (#[trigger] idx0[h2]).blk_index == f implies h2 <= mhb[f] by {
                    let j2 = choose|j2: int| 0 <= j2 < es.len() && (#[trigger] es[j2]).0 == h2;
                    assert(*es[j2].1 == idx0[h2]);
                }
            }
            assert forall|h: u64| idx0.contains_key(h) implies mhb.contains_key((#[trigger] idx0[h]).blk_index) by {
                let j = choose|j: int| 0 <= j < es.len() && (#[trigger] es[j]).0 == h;
                assert(*es[j].1 == idx0[h]);
            }
        }
//@before `Ok(Self {`
        proof {
            assert(is_tip(idx0, max_known_height));
            let ci = ChainIndex { max_height, block_index, max_height_blk_index };
            assert(index_ok(ci, idx0, options.range));
            assert(index_ok(ci, index_at(dir0), options.range));
        }
//@end
}


/// link to unit driver: its precondition pre:index_holds_the_range (every height start-1 ..= max_height is indexed) follows
/// from index_ok for an index that has a record at every height up to its tip (the active chain has no holes)
pub proof fn lemma_driver_precondition(ci: ChainIndex, idx0: Map<u64, BlockIndexRecord>, range: BlockHeightRange, t: u64)
    requires
        index_ok(ci, idx0, range), is_tip(idx0, t),
        forall|h: u64| h <= t ==> idx0.contains_key(h),
    ensures
        //# C02:driver_precondition_follows
        ci.max_height <= t,
        forall|h: u64| (if range.start > 0 { (range.start - 1) as u64 } else { 0u64 }) <= h <= ci.max_height ==> #[trigger] ci.block_index.view().contains_key(h),
{
    let t2 = choose|t2: u64| #[trigger] is_tip(idx0, t2) && ci.max_height == (if range.end is Some && range.end->Some_0 < t2 { range.end->Some_0 } else { t2 });
    assert(t2 == t);
}

} // verus!
fn main() {}
