// unit driver  -- BlockchainParser::{start,on_start,on_block,on_complete,remaining} (src/blockchain/parser/mod.rs)
//@unit props=C02,C09 safety=C02
//                 + ChainStorage::max_height (chain.rs) + ChainIndex::max_height (index.rs)
// serves C02 (delivered heights), C09 (error path: an Err from get_block never reaches a callback)
use vstd::prelude::*;
verus! {
//@extract consts src/blockchain/parser/mod.rs
//@end

// ---- logging macros resolve to no-ops (D4) ----------------------------------------------
#[allow(unused_macros)] macro_rules! debug { ($($t:tt)*) => { () } }
#[allow(unused_macros)] macro_rules! info  { ($($t:tt)*) => { () } }
#[allow(unused_macros)] macro_rules! trace { ($($t:tt)*) => { () } }
#[allow(unused_macros)] macro_rules! error { ($($t:tt)*) => { () } }

// ---- dependency shims (assumed contracts) ---------------------------------------------------
pub struct Error;
pub type Result<T> = core::result::Result<T, Error>;
pub struct Block { pub opaque: u8 }

pub mod process {
    use vstd::prelude::*;
    verus! {
    // std::process::exit never returns
    #[verifier::external_body]
    pub fn exit(code: i32) -> ! { std::process::exit(code) }
    }
}

#[verifier::external_type_specification]
#[verifier::external_body]
pub struct ExInstant(std::time::Instant);
pub use std::time::{Duration, Instant};

pub assume_specification[ Instant::now ]() -> Instant;

/// Callback: the five callbacks of the repository seen through three ghost observations.
/// `log` is the sequence of heights passed to on_block so far.
pub trait Callback {
    spec fn started(&self) -> Option<u64>;
    spec fn log(&self) -> Seq<u64>;
    spec fn completed(&self) -> Option<u64>;

    fn on_start(&mut self, block_height: u64) -> (r: Result<()>)
        ensures
            final(self).log() == old(self).log(),
            final(self).completed() == old(self).completed(),
            r is Ok ==> final(self).started() == Some(block_height),
            r is Err ==> final(self).started() == old(self).started();

    fn on_block(&mut self, block: &Block, block_height: u64) -> (r: Result<()>)
        ensures
            final(self).started() == old(self).started(),
            final(self).completed() == old(self).completed(),
            r is Ok ==> final(self).log() == old(self).log().push(block_height),
            r is Err ==> final(self).log() == old(self).log();

    fn on_complete(&mut self, block_height: u64) -> (r: Result<()>)
        ensures
            final(self).started() == old(self).started(),
            final(self).log() == old(self).log(),
            r is Ok ==> final(self).completed() == Some(block_height),
            r is Err ==> final(self).completed() == old(self).completed();

    fn show_progress(&self) -> bool;
}

// ---- ChainIndex / ChainStorage as far as the driver sees them ----------------------------------
pub struct ChainIndex {
    pub max_height: u64,
    pub block_index: Ghost<Set<u64>>,
}

impl ChainIndex {
    /// heights present in the (trimmed) block index
    pub open spec fn present(&self) -> Set<u64> { self.block_index@ }

//@extract fn src/blockchain/parser/index.rs :: impl ChainIndex :: max_height
//@spec
        ensures r == self.max_height,
//@end
}

pub struct ChainStorage {
    pub chain_index: ChainIndex,
    /// blk_files, coin, verify: whatever else get_block may read or change
    pub rest: u64,
}

impl ChainStorage {
    /// contract proved on the real body in unit `chain` (same text: contracts/get_block_driver.inc)
    #[verifier::external_body]
    pub fn get_block(&mut self, height: u64) -> (r: Result<Option<Block>>)
        requires
            // --verify looks up the predecessor's record (unit chain: pre:predecessor_record_retained)
            height > 0 ==> old(self).chain_index.present().contains((height - 1) as u64),
//@include contracts/get_block_driver.inc
    { unimplemented!() }

//@extract fn src/blockchain/parser/chain.rs :: impl ChainStorage :: max_height
//@vis pub
//@spec
        ensures r == self.chain_index.max_height,
//@end
}

// ---- the repository's driver ---------------------------------------------------------------------
//@extract type src/blockchain/parser/mod.rs :: struct WorkerStats
//@end

//@extract type src/blockchain/parser/mod.rs :: struct BlockchainParser
//@end

/// heights(a, b) = a, a+1, .., b-1
pub open spec fn heights(a: int, b: int) -> Seq<u64>
    decreases b - a
{
    if b <= a { Seq::empty() } else { heights(a, b - 1).push((b - 1) as u64) }
}

impl BlockchainParser {

    // statistics only: reads the clock, writes self.stats; trusted not to touch anything else
    #[verifier::external_body]
    fn print_progress(&mut self, height: u64)
        ensures
            final(self).chain_storage == old(self).chain_storage,
            final(self).callback == old(self).callback,
            final(self).cur_height == old(self).cur_height,
    { unimplemented!() }

//@extract fn src/blockchain/parser/mod.rs :: impl BlockchainParser :: on_start
//@spec
        ensures
            final(self).chain_storage == old(self).chain_storage,
            final(self).cur_height == old(self).cur_height,
            final(self).callback.log() == old(self).callback.log(),
            final(self).callback.completed() == old(self).callback.completed(),
            r is Ok ==> final(self).callback.started() == Some(height),
            r is Err ==> final(self).callback.started() == old(self).callback.started(),
//@end

//@extract fn src/blockchain/parser/mod.rs :: impl BlockchainParser :: on_block
//@spec
        ensures
            final(self).chain_storage == old(self).chain_storage,
            final(self).cur_height == old(self).cur_height,
            final(self).callback.started() == old(self).callback.started(),
            final(self).callback.completed() == old(self).callback.completed(),
            r is Ok ==> final(self).callback.log() == old(self).callback.log().push(height),
            r is Err ==> final(self).callback.log() == old(self).callback.log(),
//@end

//@extract fn src/blockchain/parser/mod.rs :: impl BlockchainParser :: on_complete
//@spec
        ensures
            final(self).chain_storage == old(self).chain_storage,
            final(self).cur_height == old(self).cur_height,
            final(self).callback.started() == old(self).callback.started(),
            final(self).callback.log() == old(self).callback.log(),
            r is Ok ==> final(self).callback.completed() == Some(height),
            r is Err ==> final(self).callback.completed() == old(self).callback.completed(),
//@end

//@extract fn src/blockchain/parser/mod.rs :: impl BlockchainParser :: remaining
//@spec
        ensures
            r == (if self.chain_storage.chain_index.max_height >= self.cur_height {
                    self.chain_storage.chain_index.max_height - self.cur_height } else { 0 }) as u64,
//@end

//@extract fn src/blockchain/parser/mod.rs :: impl BlockchainParser :: start
//@idiom? I4 loop 1
//@spec
        requires
            //# pre:fresh_callback
            old(self).callback.log().len() == 0,
            old(self).callback.completed() is None,
            //# pre:tip_below_u64_max
            old(self).chain_storage.chain_index.max_height < u64::MAX,
            //# pre:index_holds_the_range   (established by ChainIndex::new -- assumed, see DESIGN C02)
            forall|h: u64| old(self).cur_height <= h + 1 && h <= old(self).chain_storage.chain_index.max_height
                ==> old(self).chain_storage.chain_index.present().contains(h),
        ensures
            //# C02:on_start_receives_start_height
            r is Ok ==> final(self).callback.started() == Some(old(self).cur_height),
            //# C02:delivered_heights_inclusive
            r is Ok ==> final(self).callback.log() =~= heights(old(self).cur_height as int,
                            old(self).chain_storage.chain_index.max_height as int + 1),
            //# C02:on_complete_receives_last_height
            r is Ok ==> final(self).callback.completed() == Some(
                if old(self).chain_storage.chain_index.max_height >= old(self).cur_height {
                    old(self).chain_storage.chain_index.max_height
                } else if old(self).cur_height > 0 { (old(self).cur_height - 1) as u64 } else { 0u64 }),
            //# C02:err_means_no_completion
            r is Err ==> final(self).callback.completed() is None,
            //# C02:log_is_a_prefix_on_error
            r is Err ==> exists|k: int| old(self).cur_height <= k
                && final(self).callback.log() =~= heights(old(self).cur_height as int, k),
//@before `self.on_start`
        let ghost s0 = self.cur_height as int;
        let ghost m = self.chain_storage.chain_index.max_height as int;
        proof { assert(self.callback.log() =~= heights(s0, s0)); }
//@loop 1 label=iter
            invariant
                //# inv:index_unchanged
                self.chain_storage.chain_index == old(self).chain_storage.chain_index,
                self.callback.started() == Some(old(self).cur_height),
                self.callback.completed() is None,
                s0 == old(self).cur_height, m == old(self).chain_storage.chain_index.max_height,
                m < u64::MAX,
                forall|h: u64| s0 <= h + 1 && h <= m ==> self.chain_storage.chain_index.present().contains(h),
                //# inv:log_is_heights_so_far
                self.callback.log() =~= heights(s0, s0 + iter.index@),
                //# inv:cur_height_tracks_loop
                self.cur_height == s0 + iter.index@,
                //# inv:range_is_start_to_tip_inclusive
                iter.snapshot.start == s0, iter.snapshot.end == m + 1,
                iter.seq().len() == (if m + 1 >= s0 { m + 1 - s0 } else { 0 }),
            ensures
                //# loop_exit:all_heights_delivered
                self.callback.log() =~= heights(s0, (if m + 1 >= s0 { m + 1 } else { s0 })),
                self.cur_height == (if m + 1 >= s0 { m + 1 } else { s0 }),
                self.callback.started() == Some(old(self).cur_height),
                self.callback.completed() is None,
                self.chain_storage.chain_index == old(self).chain_storage.chain_index,
//@before `let block = match`
            assert(height == s0 + iter.index@);
            assert(height <= m);
//@before `self.on_complete`
        proof {
            if m + 1 < s0 { assert(heights(s0, s0) =~= heights(s0, m + 1)); }
        }
//@end
}

} // verus!
fn main() {}
