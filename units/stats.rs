// unit stats -- SimpleStats::{process_tx_pattern, on_block} (callbacks/simplestats.rs)
//@unit props=C15 safety=C15
use vstd::prelude::*;
verus! {
global size_of usize == 8;
//@extract consts src/callbacks/simplestats.rs
//@end

#[allow(unused_macros)] macro_rules! info { ($($t:tt)*) => { () } }

pub struct Error;
pub type Result<T> = core::result::Result<T, Error>;

//@include prelude/hashes.inc
//@include prelude/script_types.inc
//@include prelude/tx_types.inc

// ---- keys of the per-script-type maps: a ScriptPattern as a value ------------------------------------
pub enum PKey { OpReturn(Seq<char>), Pay2MultiSig, Pay2PublicKey, Pay2PublicKeyHash, Pay2ScriptHash,
    Pay2WitnessPublicKeyHash, Pay2WitnessScriptHash, WitnessProgram, Pay2Taproot, Unspendable, NotRecognised,
    ErrEof, ErrFormat }
pub open spec fn pkey(p: ScriptPattern) -> PKey {
    match p {
        ScriptPattern::OpReturn(s) => PKey::OpReturn(s@),
        ScriptPattern::Pay2MultiSig => PKey::Pay2MultiSig,
        ScriptPattern::Pay2PublicKey => PKey::Pay2PublicKey,
        ScriptPattern::Pay2PublicKeyHash => PKey::Pay2PublicKeyHash,
        ScriptPattern::Pay2ScriptHash => PKey::Pay2ScriptHash,
        ScriptPattern::Pay2WitnessPublicKeyHash => PKey::Pay2WitnessPublicKeyHash,
        ScriptPattern::Pay2WitnessScriptHash => PKey::Pay2WitnessScriptHash,
        ScriptPattern::WitnessProgram => PKey::WitnessProgram,
        ScriptPattern::Pay2Taproot => PKey::Pay2Taproot,
        ScriptPattern::Unspendable => PKey::Unspendable,
        ScriptPattern::NotRecognised => PKey::NotRecognised,
        ScriptPattern::Error(ScriptError::UnexpectedEof) => PKey::ErrEof,
        ScriptPattern::Error(ScriptError::InvalidFormat) => PKey::ErrFormat,
    }
}
/// the key simplestats files an output under: OP_RETURN payloads are stripped
pub open spec fn stat_key(p: ScriptPattern) -> PKey {
    match p { ScriptPattern::OpReturn(_) => PKey::OpReturn(Seq::empty()), q => pkey(q) }
}

/// std HashMap<ScriptPattern, V> (derived Eq/Hash on ScriptPattern compare the payload text): a Map over PKey
#[verifier::external_body]
#[verifier::reject_recursive_types(K)]
#[verifier::reject_recursive_types(V)]
pub struct HashMap<K, V> { inner: std::collections::HashMap<u64, (K, V)> }
impl<V> HashMap<ScriptPattern, V> {
    pub uninterp spec fn view(&self) -> Map<PKey, V>;
    #[verifier::external_body]
    pub fn contains_key(&self, k: &ScriptPattern) -> (r: bool) ensures r == self.view().contains_key(pkey(*k)) { unimplemented!() }
    #[verifier::external_body]
    pub fn insert(&mut self, k: ScriptPattern, v: V) -> (r: Option<V>)
        ensures final(self).view() == old(self).view().insert(pkey(k), v)
    { unimplemented!() }
}
/// I15: `M.entry(K).or_insert(V)`: a mutable reference to the value at K, inserting V first if absent
#[verifier::external_body]
pub fn idiom_entry_or_insert<'a, V>(m: &'a mut HashMap<ScriptPattern, V>, k: ScriptPattern, v: V) -> (r: &'a mut V)
    ensures
        *r == (if old(m).view().contains_key(pkey(k)) { old(m).view()[pkey(k)] } else { v }),
        final(m).view() == old(m).view().insert(pkey(k), *final(r)),
{ unimplemented!() }

pub trait ToRaw { }
pub mod block {
    use vstd::prelude::*;
    verus! {
    pub open spec fn base_reward(h: u64) -> u64 { if h / 210000 < 64 { 5_000_000_000u64 >> (h / 210000) } else { 0 } }
//@extract fn src/blockchain/proto/block.rs :: - :: get_base_reward
//@spec
        requires block_height < 64 * 210000,   // SAFETY-SHIM: the shift overflows beyond (documented precondition)
        ensures
            //# C15:base_reward_halves_every_210000
            r == base_reward(block_height),
//@end
    }
}
pub use block::base_reward;

/// witness-stripped serialised size of a transaction (EvaluatedTx::to_bytes: unit proto)
pub uninterp spec fn tx_size(t: EvaluatedTx) -> nat;
pub open spec fn is_cb(t: EvaluatedTx) -> bool {
    t.in_count.value == 1 && t.inputs@.len() >= 1
        && t.inputs@[0].outpoint.txid.0@ == Seq::new(32, |i: int| 0u8) && t.inputs@[0].outpoint.index == 0xFFFF_FFFFu32
}
/// I31: `H.as_ref() == [0u8; 32]` on a 32-byte hash (also proved on the real body by Kani harness tx_is_coinbase_predicate)
#[verifier::external_body]
pub fn idiom_is_zero32(h: &Sha256dHash) -> (r: bool) ensures r == (h.0@ == Seq::new(32, |i: int| 0u8)) { unimplemented!() }
impl EvaluatedTx {
//@extract fn src/blockchain/proto/tx.rs :: impl EvaluatedTx :: is_coinbase
//@idiom I31 `input.outpoint.txid.as_ref() == [0u8; 32]`
//@spec
        requires self.in_count.value == 1 ==> self.inputs@.len() >= 1,   // SAFETY-SHIM: inputs.first().unwrap()
        ensures
            //# C15:coinbase_is_one_input_with_null_outpoint
            r == is_cb(*self),
//@end
    #[verifier::external_body]
    pub fn to_bytes(&self) -> (r: Vec<u8>) ensures r@.len() == tx_size(*self) { unimplemented!() }
}

// ---- the definition of every accumulated figure (from the property statement) --------------------------
pub open spec fn sum_values(outs: Seq<EvaluatedTxOut>, n: int) -> int
    decreases n
{ if n <= 0 { 0 } else { sum_values(outs, n - 1) + outs[n - 1].out.value } }
pub open spec fn fee_of(t: EvaluatedTx, h: u64) -> int {
    if is_cb(t) && t.outputs@[0].out.value >= base_reward(h) { t.outputs@[0].out.value - base_reward(h) } else { 0 }
}
pub struct Acc {
    pub n_in: int, pub n_out: int, pub fee: int, pub volume: int,
    pub big_val: (u64, u64, sha256d::Hash), pub big_size: (usize, u64, sha256d::Hash),
    pub types: Map<PKey, u64>, pub first: Map<PKey, (u64, sha256d::Hash, u32)>,
}
/// one output: count its script type, remember the first occurrence
pub open spec fn step_out(types: Map<PKey, u64>, first: Map<PKey, (u64, sha256d::Hash, u32)>, p: ScriptPattern, h: u64, txid: sha256d::Hash, i: u32)
    -> (Map<PKey, u64>, Map<PKey, (u64, sha256d::Hash, u32)>)
{
    let k = stat_key(p);
    if !types.contains_key(k) { (types.insert(k, 1), first.insert(k, (h, txid, i))) }
    else { (types.insert(k, (types[k] + 1) as u64), first) }
}
pub open spec fn step_outs(types: Map<PKey, u64>, first: Map<PKey, (u64, sha256d::Hash, u32)>, outs: Seq<EvaluatedTxOut>, h: u64, txid: sha256d::Hash, n: int)
    -> (Map<PKey, u64>, Map<PKey, (u64, sha256d::Hash, u32)>)
    decreases n
{
    if n <= 0 { (types, first) } else {
        let (t, f) = step_outs(types, first, outs, h, txid, n - 1);
        step_out(t, f, outs[n - 1].script.pattern, h, txid, (n - 1) as u32)
    }
}
/// one transaction
pub open spec fn step_tx(a: Acc, t: Hashed<EvaluatedTx>, h: u64) -> Acc {
    let v = sum_values(t.value.outputs@, t.value.outputs@.len() as int);
    let (ty, fi) = step_outs(a.types, a.first, t.value.outputs@, h, t.hash, t.value.outputs@.len() as int);
    Acc {
        n_in: a.n_in + t.value.in_count.value, n_out: a.n_out + t.value.out_count.value,
        fee: a.fee + fee_of(t.value, h), volume: a.volume + v,
        // strictly greater: the first transaction wins a tie
        big_val: if v > a.big_val.0 { (v as u64, h, t.hash) } else { a.big_val },
        big_size: if tx_size(t.value) > a.big_size.0 { (tx_size(t.value) as usize, h, t.hash) } else { a.big_size },
        types: ty, first: fi,
    }
}
pub open spec fn step_txs(a: Acc, txs: Seq<Hashed<EvaluatedTx>>, h: u64, n: int) -> Acc
    decreases n
{ if n <= 0 { a } else { step_tx(step_txs(a, txs, h, n - 1), txs[n - 1], h) } }

//@extract type src/callbacks/simplestats.rs :: struct SimpleStats
//@end

pub open spec fn acc_of(s: SimpleStats) -> Acc {
    Acc { n_in: s.n_tx_inputs as int, n_out: s.n_tx_outputs as int, fee: s.n_tx_total_fee as int, volume: s.n_tx_total_volume as int,
          big_val: s.tx_biggest_value, big_size: s.tx_biggest_size, types: s.n_tx_types.view(), first: s.tx_first_occs.view() }
}
/// no per-type counter is about to overflow (a chain has far fewer than 2^64 outputs)
pub open spec fn counts_below(types: Map<PKey, u64>, b: int) -> bool { forall|k: PKey| types.contains_key(k) ==> #[trigger] types[k] <= b }

impl SimpleStats {
//@extract fn src/callbacks/simplestats.rs :: impl SimpleStats :: process_tx_pattern
//@idiom I15 `self.n_tx_types.entry(pattern).or_insert(1)`
//@spec
        requires exists|b: int| counts_below(old(self).n_tx_types.view(), b) && b < u64::MAX,
        ensures
            //# C15:type_count_plus_one_first_occurrence_kept
            (final(self).n_tx_types.view(), final(self).tx_first_occs.view())
                == step_out(old(self).n_tx_types.view(), old(self).tx_first_occs.view(), script_pattern, block_height, txid, index),
            forall|b: int| #[trigger] counts_below(old(self).n_tx_types.view(), b) && 0 <= b ==> counts_below(final(self).n_tx_types.view(), b + 1),
            // frame: nothing else changes
            final(self).n_valid_blocks == old(self).n_valid_blocks, final(self).block_sizes == old(self).block_sizes,
            final(self).n_tx == old(self).n_tx, final(self).n_tx_inputs == old(self).n_tx_inputs, final(self).n_tx_outputs == old(self).n_tx_outputs,
            final(self).n_tx_total_fee == old(self).n_tx_total_fee, final(self).n_tx_total_volume == old(self).n_tx_total_volume,
            final(self).tx_biggest_value == old(self).tx_biggest_value, final(self).tx_biggest_size == old(self).tx_biggest_size,
            final(self).t_between_blocks == old(self).t_between_blocks, final(self).last_timestamp == old(self).last_timestamp,
//@before `if !self.n_tx_types`
        assert(pkey(pattern) == stat_key(script_pattern));
        let ghost b0 = choose|b: int| counts_below(self.n_tx_types.view(), b) && b < u64::MAX;
//@end
}


pub open spec fn total_outs(txs: Seq<Hashed<EvaluatedTx>>, n: int) -> int
    decreases n
{ if n <= 0 { 0 } else { total_outs(txs, n - 1) + txs[n - 1].value.outputs@.len() } }

/// input well-formedness (established by the parser / consensus): a coinbase has an output, counts
/// equal lengths, fewer than 2^32 outputs per tx
pub open spec fn stx_wf(t: Hashed<EvaluatedTx>) -> bool {
    &&& t.value.inputs@.len() == t.value.in_count.value
    &&& t.value.outputs@.len() <= u32::MAX
    &&& (is_cb(t.value) ==> t.value.outputs@.len() >= 1)
}
/// the figures stay below 2^64 (sum of all output values of a real chain is < 21e14; stated, not assumed silently)
pub open spec fn no_overflow(a: Acc, txs: Seq<Hashed<EvaluatedTx>>, h: u64, n: int) -> bool
    decreases n
{
    if n <= 0 { true } else {
        let b = step_txs(a, txs, h, n);
        no_overflow(a, txs, h, n - 1) && b.n_in <= u64::MAX && b.n_out <= u64::MAX && b.fee <= u64::MAX && b.volume <= u64::MAX
            && sum_values(txs[n - 1].value.outputs@, txs[n - 1].value.outputs@.len() as int) <= u64::MAX
    }
}

pub trait Callback {
    spec fn on_block_pre(&self, block: &Block, block_height: u64) -> bool;
    fn on_block(&mut self, block: &Block, block_height: u64) -> (r: Result<()>)
        requires old(self).on_block_pre(block, block_height);
}

impl Callback for SimpleStats {
    open spec fn on_block_pre(&self, block: &Block, block_height: u64) -> bool {
        &&& block_height < 64 * 210000
        &&& self.n_valid_blocks < u64::MAX && self.n_tx + block.tx_count.value <= u64::MAX
        &&& forall|i: int| 0 <= i < block.txs@.len() ==> stx_wf(#[trigger] block.txs@[i])
        &&& no_overflow(acc_of(*self), block.txs@, block_height, block.txs@.len() as int)
        &&& exists|b: int| 0 <= b && counts_below(self.n_tx_types.view(), b) && b + total_outs(block.txs@, block.txs@.len() as int) < u64::MAX
    }
//@extract fn src/callbacks/simplestats.rs :: impl Callback for SimpleStats :: on_block
//@vis none
//@idiom I1 loop 2
//@spec
        ensures
            r is Ok,
            //# C15:block_and_tx_counts
            final(self).n_valid_blocks == old(self).n_valid_blocks + 1,
            final(self).n_tx == old(self).n_tx + block.tx_count.value,
            final(self).block_sizes@ == old(self).block_sizes@.push(block.size),
            //# C15:inputs_outputs_fees_volume_maxima_types_equal_their_definitions
            acc_of(*final(self)) == step_txs(acc_of(*old(self)), block.txs@, block_height, block.txs@.len() as int),
            //# C15:time_between_blocks_clamped_at_zero
            final(self).last_timestamp == block.header.value.timestamp,
            final(self).t_between_blocks@ == (if old(self).last_timestamp > 0 {
                old(self).t_between_blocks@.push(if block.header.value.timestamp >= old(self).last_timestamp {
                    (block.header.value.timestamp - old(self).last_timestamp) as u32 } else { 0u32 })
            } else { old(self).t_between_blocks@ }),
//@before `self.n_valid_blocks += 1;`
        let ghost a0 = acc_of(*self);
        let ghost nt = block.txs@.len() as int;
        let ghost b0 = choose|b: int| 0 <= b && counts_below(self.n_tx_types.view(), b) && b + total_outs(block.txs@, nt) < u64::MAX;
        proof { lemma_total_outs_mono(block.txs@, nt); lemma_no_overflow_prefix(a0, block.txs@, block_height, nt); }
//@loop 1 label=it
            invariant
                it.seq().len() == block.txs@.len(),
                forall|i: int| 0 <= i < block.txs@.len() ==> it.seq()[i] == &block.txs@[i],
                nt == block.txs@.len(), block_height < 64 * 210000,
                forall|i: int| 0 <= i < block.txs@.len() ==> stx_wf(#[trigger] block.txs@[i]),
                forall|k: int| 0 <= k <= nt ==> #[trigger] no_overflow(a0, block.txs@, block_height, k),
                forall|k: int| 0 <= k <= nt ==> 0 <= #[trigger] total_outs(block.txs@, k) <= total_outs(block.txs@, nt),
                0 <= b0, b0 + total_outs(block.txs@, nt) < u64::MAX,
                counts_below(self.n_tx_types.view(), b0 + total_outs(block.txs@, it.index@ as int)),
                //# C15:inv_accumulated_prefix
                acc_of(*self) == step_txs(a0, block.txs@, block_height, it.index@ as int),
                self.n_valid_blocks == old(self).n_valid_blocks + 1, self.n_tx == old(self).n_tx + block.tx_count.value,
                self.block_sizes@ == old(self).block_sizes@.push(block.size),
                self.t_between_blocks == old(self).t_between_blocks, self.last_timestamp == old(self).last_timestamp,
//@before `if tx.value.`
            let ghost j = it.index@ as int;
            let ghost a1 = acc_of(*self);
            assert(*tx == block.txs@[j]);
            assert(no_overflow(a0, block.txs@, block_height, j + 1));
            let ghost a2 = step_tx(a1, *tx, block_height);
            assert(a2 == step_txs(a0, block.txs@, block_height, j + 1));
//@before `let mut tx_value = 0;`
            let ghost outs = tx.value.outputs@;
            let ghost ty0 = self.n_tx_types.view();
            let ghost fi0 = self.tx_first_occs.view();
            proof {
                lemma_sum_values_mono(outs, outs.len() as int);
                assert(total_outs(block.txs@, j + 1) == total_outs(block.txs@, j) + outs.len());
                assert(total_outs(block.txs@, j + 1) <= total_outs(block.txs@, nt));
            }
//@loop 2
                invariant
                    outs == tx.value.outputs@, outs.len() <= u32::MAX,
                    tx_value == sum_values(outs, i as int),
                    forall|k: int| 0 <= k <= outs.len() ==> 0 <= #[trigger] sum_values(outs, k) <= sum_values(outs, outs.len() as int),
                    sum_values(outs, outs.len() as int) <= u64::MAX,
                    (self.n_tx_types.view(), self.tx_first_occs.view()) == step_outs(ty0, fi0, outs, block_height, tx.hash, i as int),
                    counts_below(self.n_tx_types.view(), b0 + total_outs(block.txs@, j) + i),
                    0 <= b0, 0 <= total_outs(block.txs@, j), b0 + total_outs(block.txs@, j) + outs.len() < u64::MAX,
                    // everything but the two maps is untouched by process_tx_pattern
                    self.n_valid_blocks == old(self).n_valid_blocks + 1, self.n_tx == old(self).n_tx + block.tx_count.value,
                    self.block_sizes@ == old(self).block_sizes@.push(block.size),
                    self.t_between_blocks == old(self).t_between_blocks, self.last_timestamp == old(self).last_timestamp,
                    self.n_tx_inputs == a2.n_in, self.n_tx_outputs == a2.n_out, self.n_tx_total_fee == a2.fee,
                    self.n_tx_total_volume == a1.volume, self.tx_biggest_value == a1.big_val, self.tx_biggest_size == a1.big_size,
//@before `self.process_tx_pattern`
                assert(counts_below(self.n_tx_types.view(), b0 + total_outs(block.txs@, j) + i));
                assert(*o == outs[i as int]);
                assert(sum_values(outs, i + 1) == sum_values(outs, i as int) + outs[i as int].out.value);
                assert(sum_values(outs, i + 1) <= sum_values(outs, outs.len() as int));
//@end
}

pub proof fn lemma_total_outs_mono(txs: Seq<Hashed<EvaluatedTx>>, n: int)
    requires 0 <= n <= txs.len(),
    ensures forall|k: int| 0 <= k <= n ==> 0 <= #[trigger] total_outs(txs, k) <= total_outs(txs, n),
    decreases n
{
    if n > 0 {
        lemma_total_outs_mono(txs, n - 1);
        assert(total_outs(txs, n) == total_outs(txs, n - 1) + txs[n - 1].value.outputs@.len());
    } else { assert(total_outs(txs, 0) == 0); }
}
pub proof fn lemma_sum_values_mono(outs: Seq<EvaluatedTxOut>, n: int)
    requires 0 <= n <= outs.len(),
    ensures forall|k: int| 0 <= k <= n ==> 0 <= #[trigger] sum_values(outs, k) <= sum_values(outs, n),
    decreases n
{
    if n > 0 {
        lemma_sum_values_mono(outs, n - 1);
        assert(sum_values(outs, n) == sum_values(outs, n - 1) + outs[n - 1].out.value);
    } else { assert(sum_values(outs, 0) == 0); }
}
pub proof fn lemma_no_overflow_prefix(a: Acc, txs: Seq<Hashed<EvaluatedTx>>, h: u64, n: int)
    requires 0 <= n <= txs.len(), no_overflow(a, txs, h, n),
    ensures forall|k: int| 0 <= k <= n ==> #[trigger] no_overflow(a, txs, h, k),
    decreases n
{
    if n > 0 { lemma_no_overflow_prefix(a, txs, h, n - 1); }
}

} // verus!
fn main() {}
