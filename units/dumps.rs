// unit dumps -- UnspentCsvDump::on_complete (src/callbacks/unspentcsvdump.rs), Balances::on_complete (src/callbacks/balances.rs)
//@unit props=C07,C08 safety=C07,C08
// C07 "a header and exactly one row per [unspent] output ... with its txid, output index, creation height, value and
// address; nothing else is listed and nothing is listed twice"; C08 "a header and exactly one row per distinct address
// that owns at least one unspent output ... the balance is the exact sum of those outputs' values".
// Unit utxo proves WHICH map on_complete receives (apply_blocks(range)); this unit proves what is written from it.
// The TEXT of one row (format!/Display) is an uninterpreted function of the field values it is given.
use vstd::prelude::*;
verus! {
global size_of usize == 8;

#[allow(unused_macros)] macro_rules! info  { ($($t:tt)*) => { () } }
#[allow(unused_macros)] macro_rules! format {
    ($f:expr, $a:expr, $b:expr) => { crate::fmt2($f, &$a, &$b) };
    ($f:expr, $a:expr, $b:expr, $c:expr, $d:expr, $e:expr) => { crate::fmt5($f, &$a, &$b, &$c, &$d, &$e) };
}

pub struct Error;
pub type Result<T> = core::result::Result<T, Error>;

//@include prelude/hashes.inc
//@include prelude/hashmap.inc
//@include prelude/writer.inc

/// format!("..", a, b) / format!("..", a, b, c, d, e): the text is an uninterpreted function of the format string and the values
pub uninterp spec fn row2<A, B>(f: Seq<char>, a: A, b: B) -> Seq<u8>;
pub uninterp spec fn row5<A, B, C, D, E>(f: Seq<char>, a: A, b: B, c: C, d: D, e: E) -> Seq<u8>;
#[verifier::external_body]
pub fn fmt2<A, B>(f: &str, a: &A, b: &B) -> (r: Row) ensures r.bytes@ == row2(f@, *a, *b) { unimplemented!() }
#[verifier::external_body]
pub fn fmt5<A, B, C, D, E>(f: &str, a: &A, b: &B, c: &C, d: &D, e: &E) -> (r: Row) ensures r.bytes@ == row5(f@, *a, *b, *c, *d, *e) { unimplemented!() }

impl PathBuf {
    #[verifier::external_body] pub fn as_path(&self) -> (r: &PathBuf) { unimplemented!() }
    #[verifier::external_body] pub fn join<T>(&self, t: T) -> (r: PathBuf) { unimplemented!() }
}
/// std::fs::rename: not under contract (no file-system state in this unit); lane N reads the renamed files
pub mod fs {
    use vstd::prelude::*;
    verus! {
    #[verifier::external_body] pub fn rename(a: crate::PathBuf, b: crate::PathBuf) -> (r: crate::Result<()>) { unimplemented!() }
    }
}
/// Result::expect on fs::rename's result: diverges on Err
#[verifier::external_body]
pub fn idiom_expect(r: Result<()>, msg: &str) ensures r is Ok { unimplemented!() }

// byteorder::ReadBytesExt::read_u32::<LittleEndian> on a byte slice: decodes 4 bytes and advances (Kani-validated LE decoder)
pub struct LittleEndian;
pub open spec fn le32_of(s: Seq<u8>) -> u32 { vstd::bytes::spec_u32_from_le_bytes(s) }
pub trait ReadBytesExt { fn read_u32<T>(&mut self) -> Result<u32>; }
impl<'a> ReadBytesExt for &'a [u8] {
    #[verifier::external_body]
    fn read_u32<T>(&mut self) -> (r: Result<u32>)
        ensures old(self)@.len() >= 4 ==> r is Ok && r->Ok_0 == le32_of(old(self)@.subrange(0, 4)) && final(self)@ == old(self)@.skip(4),
                old(self)@.len() < 4 ==> r is Err,
    { unimplemented!() }
}
#[derive(Debug)] pub struct FromSliceError;
impl Sha256dHash {
    /// bitcoin_hashes Hash::from_slice: Ok exactly for 32 bytes, which become the hash value
    #[verifier::external_body]
    pub fn from_slice(s: &[u8]) -> (r: core::result::Result<Sha256dHash, FromSliceError>)
        ensures s@.len() == 32 ==> r is Ok && r->Ok_0.0@ == s@, s@.len() != 32 ==> r is Err,
    { unimplemented!() }
}

//@extract type src/callbacks/common.rs :: struct UnspentValue
//@end
pub mod common { pub use super::UnspentValue; }
pub type UMap = Map<Seq<u8>, UnspentValue>;
pub type UEntry<'a> = (&'a Vec<u8>, &'a UnspentValue);

/// HashMap iteration: every entry exactly once, in an order the program must not depend on
pub open spec fn entries_ok(es: Seq<UEntry>, m: UMap) -> bool {
    &&& forall|i: int| 0 <= i < es.len() ==> m.contains_key((#[trigger] es[i]).0@) && *es[i].1 == m[es[i].0@]
    &&& forall|k: Seq<u8>| m.contains_key(k) ==> exists|i: int| 0 <= i < es.len() && (#[trigger] es[i]).0@ == k
    &&& forall|i: int, j: int| 0 <= i < j < es.len() ==> (#[trigger] es[i]).0@ != (#[trigger] es[j]).0@
}
impl HashMap<Vec<u8>, UnspentValue> {
    /// I17
    #[verifier::external_body]
    pub fn idiom_entries<'a>(&'a self) -> (r: Vec<UEntry<'a>>) ensures entries_ok(r@, self.view()) { unimplemented!() }
}
pub type BEntry<'a, 'b> = (&'a &'b str, &'a u64);
pub open spec fn bal_entries_ok(es: Seq<BEntry>, m: Map<Seq<char>, u64>) -> bool {
    &&& forall|i: int| 0 <= i < es.len() ==> m.contains_key((#[trigger] es[i]).0@) && *es[i].1 == m[es[i].0@]
    &&& forall|k: Seq<char>| m.contains_key(k) ==> exists|i: int| 0 <= i < es.len() && (#[trigger] es[i]).0@ == k
    &&& forall|i: int, j: int| 0 <= i < j < es.len() ==> (#[trigger] es[i]).0@ != (#[trigger] es[j]).0@
}
impl<'b> HashMap<&'b str, u64> {
    pub uninterp spec fn view(&self) -> Map<Seq<char>, u64>;
    #[verifier::external_body]
    pub fn new() -> (r: Self) ensures r.view() == Map::<Seq<char>, u64>::empty() { unimplemented!() }
    #[verifier::external_body]
    pub fn len(&self) -> (r: usize) { unimplemented!() }
    /// I17
    #[verifier::external_body]
    pub fn idiom_entries<'a>(&'a self) -> (r: Vec<BEntry<'a, 'b>>) ensures bal_entries_ok(r@, self.view()) { unimplemented!() }
}
/// I15: `M.entry(K).or_insert(V)`: a mutable reference to the value at K, inserting V first if absent
#[verifier::external_body]
pub fn idiom_entry_or_insert<'a, 'b>(m: &'a mut HashMap<&'b str, u64>, k: &'b String, v: u64) -> (r: &'a mut u64)
    ensures
        *r == (if old(m).view().contains_key(k@) { old(m).view()[k@] } else { v }),
        final(m).view() == old(m).view().insert(k@, *final(r)),
{ unimplemented!() }

// ---- C07: what the unspent dump must contain --------------------------------------------------------------------
pub open spec fn keys_wf(m: UMap) -> bool { forall|k: Seq<u8>| m.contains_key(k) ==> k.len() == 36 }
pub open spec fn unspent_fmt() -> Seq<char> { "{};{};{};{};{}\n"@ }
/// the row of one entry: txid = key[0..32], index = LE32(key[32..36]), then creation height, value, address
pub open spec fn unspent_row(e: UEntry) -> Seq<u8> {
    row5(unspent_fmt(), Sha256dHash(arr32(e.0@.subrange(0, 32))), le32_of(e.0@.subrange(32, 36)), e.1.block_height, e.1.value, e.1.address)
}
pub uninterp spec fn arr32(s: Seq<u8>) -> [u8; 32];
pub axiom fn axiom_arr32(s: Seq<u8>) requires s.len() == 32 ensures arr32(s)@ == s;
pub open spec fn unspent_rows(es: Seq<UEntry>, n: int) -> Seq<Seq<u8>>
    decreases n
{ if n <= 0 { Seq::empty() } else { unspent_rows(es, n - 1).push(unspent_row(es[n - 1])) } }

// ---- C08: per-address aggregation ---------------------------------------------------------------------------------
pub open spec fn sum_for(es: Seq<UEntry>, a: Seq<char>, n: int) -> int
    decreases n
{ if n <= 0 { 0 } else { sum_for(es, a, n - 1) + (if es[n - 1].1.address@ == a { es[n - 1].1.value as int } else { 0 }) } }
pub open spec fn has_addr(es: Seq<UEntry>, a: Seq<char>, n: int) -> bool { exists|i: int| 0 <= i < n && (#[trigger] es[i]).1.address@ == a }
/// the balances of the first n entries: exactly the addresses that own an entry, each with the sum of its entries' values
pub open spec fn bal_ok(b: Map<Seq<char>, u64>, es: Seq<UEntry>, n: int) -> bool {
    &&& forall|a: Seq<char>| b.contains_key(a) <==> has_addr(es, a, n)
    &&& forall|a: Seq<char>| b.contains_key(a) ==> #[trigger] b[a] == sum_for(es, a, n)
}
pub open spec fn bal_fmt() -> Seq<char> { "{};{}\n"@ }
pub open spec fn bal_rows(bes: Seq<BEntry>, n: int) -> Seq<Seq<u8>>
    decreases n
{ if n <= 0 { Seq::empty() } else { bal_rows(bes, n - 1).push(row2(bal_fmt(), bes[n - 1].0, bes[n - 1].1)) } }
/// money supply fits u64: no address total overflows, whatever order the entries come in
pub open spec fn totals_fit(m: UMap) -> bool {
    forall|es: Seq<UEntry>, a: Seq<char>, n: int| #[trigger] entries_ok(es, m) && 0 <= n <= es.len() ==> #[trigger] sum_for(es, a, n) <= u64::MAX
}
pub proof fn lemma_sum_nonneg(es: Seq<UEntry>, a: Seq<char>, n: int)
    ensures sum_for(es, a, n) >= 0 decreases n
{ if n > 0 { lemma_sum_nonneg(es, a, n - 1); } }

//@extract type src/callbacks/unspentcsvdump.rs :: struct UnspentCsvDump
//@end
//@extract type src/callbacks/balances.rs :: struct Balances
//@end

impl UnspentCsvDump {
//@extract fn src/callbacks/unspentcsvdump.rs :: impl Callback for UnspentCsvDump :: on_complete
//@vis pub
//@idiom I17 loop 1
//@spec
        requires
            //# pre:keys_are_36_byte_outpoints   (unit utxo: every key is TxOutpoint::to_bytes() == txid || LE32(index))
            keys_wf(old(self).unspents.view()),
        ensures
            r is Ok ==> exists|es: Seq<UEntry>| {
                &&& #[trigger] entries_ok(es, old(self).unspents.view())
                //# C07:header_then_exactly_one_row_per_unspent_entry
                &&& final(self).writer.log@ == old(self).writer.log@.push(row5(unspent_fmt(), "txid", "indexOut", "height", "value", "address")) + unspent_rows(es, es.len() as int)
            },
            final(self).unspents.view() == old(self).unspents.view(),
//@before `for (key, value`
        let ghost log1 = self.writer.log@;
//@loop 1
            invariant
                entries_ok(es__self_unspents@, self.unspents.view()), keys_wf(self.unspents.view()),
                self.unspents.view() == old(self).unspents.view(),
                //# C07:inv_one_row_per_entry_seen_so_far
                self.writer.log@ == log1 + unspent_rows(es__self_unspents@, i__self_unspents as int),
//@before `let txid =`
            let ghost lg = self.writer.log@;
            assert(key@.len() == 36);
            assert(key@.subrange(32, 36) =~= key@.skip(32).subrange(0, 4));
//@after #2 `)?;`
            proof { axiom_arr32(key@.subrange(0, 32)); }
            assert(txid.0 =~= arr32(key@.subrange(0, 32)));
            //# C07:row_is_txid_index_height_value_address_of_this_entry
            assert(self.writer.log@ =~= log1 + unspent_rows(es__self_unspents@, i__self_unspents + 1));
//@before `fs::rename(`
        //# C07:header_row_first
        assert(log1 + unspent_rows(es__self_unspents@, es__self_unspents@.len() as int)
            =~= old(self).writer.log@.push(row5(unspent_fmt(), "txid", "indexOut", "height", "value", "address")) + unspent_rows(es__self_unspents@, es__self_unspents@.len() as int));
//@end
}

impl Balances {
//@extract fn src/callbacks/balances.rs :: impl Callback for Balances :: on_complete
//@vis pub
//@idiom I17 loop 1
//@idiom I17 loop 2
//@idiom I15 `balances.entry(`
//@idiom I24 `.expect("Unable to rename tmp file!")`
//@spec
        requires
            //# pre:address_totals_fit_u64
            totals_fit(old(self).unspents.view()),
        ensures
            r is Ok ==> exists|es: Seq<UEntry>, b: Map<Seq<char>, u64>, bes: Seq<BEntry>| {
                &&& #[trigger] entries_ok(es, old(self).unspents.view())
                //# C08:one_balance_per_distinct_owning_address_equal_to_the_sum_of_its_unspent_values
                &&& #[trigger] bal_ok(b, es, es.len() as int)
                &&& #[trigger] bal_entries_ok(bes, b)
                //# C08:header_then_exactly_one_row_per_address
                &&& final(self).writer.log@ == old(self).writer.log@.push(row2(bal_fmt(), "address", "balance")) + bal_rows(bes, bes.len() as int)
            },
            final(self).unspents.view() == old(self).unspents.view(), final(self).end_height == block_height,
//@before `let mut balances`
        let ghost log1 = self.writer.log@;
//@loop 1
            invariant
                entries_ok(es__self_unspents@, self.unspents.view()), totals_fit(self.unspents.view()),
                self.unspents.view() == old(self).unspents.view(), self.writer.log@ == log1, self.end_height == block_height,
                //# C08:inv_balances_of_the_entries_seen_so_far
                bal_ok(balances.view(), es__self_unspents@, i__self_unspents as int),
//@before `let entry = `
            let ghost es = es__self_unspents@;
            let ghost i = i__self_unspents as int;
            let ghost b0 = balances.view();
            let ghost a0 = unspent.address@;
            proof {
                assert(sum_for(es, a0, i + 1) <= u64::MAX);
                assert(sum_for(es, a0, i + 1) == sum_for(es, a0, i) + unspent.value);
                lemma_sum_nonneg(es, a0, i);
                if !b0.contains_key(a0) { lemma_sum_absent(es, a0, i); }
                lemma_bal_step(b0, es, i);
            }
//@loop 2
            invariant
                bal_entries_ok(es__balances@, balances.view()),
                self.unspents.view() == old(self).unspents.view(), self.end_height == block_height,
                self.writer.log@ == log1 + bal_rows(es__balances@, i__balances as int),
//@before `for (address`
        assert(log1 + bal_rows(Seq::<BEntry>::empty(), 0) =~= log1);
//@before `fs::rename(`
        assert(self.writer.log@ =~= old(self).writer.log@.push(row2(bal_fmt(), "address", "balance")) + bal_rows(es__balances@, es__balances@.len() as int));
//@end
}

/// one aggregation step: adding entry i's value to its address keeps bal_ok
pub proof fn lemma_bal_step(b0: Map<Seq<char>, u64>, es: Seq<UEntry>, i: int)
    requires bal_ok(b0, es, i), 0 <= i < es.len(), sum_for(es, es[i].1.address@, i + 1) <= u64::MAX,
    ensures ({
        let a0 = es[i].1.address@;
        let cur = if b0.contains_key(a0) { b0[a0] } else { 0u64 };
        bal_ok(b0.insert(a0, (cur + es[i].1.value) as u64), es, i + 1)
    }),
{
    let a0 = es[i].1.address@;
    let cur = if b0.contains_key(a0) { b0[a0] } else { 0u64 };
    let b1 = b0.insert(a0, (cur + es[i].1.value) as u64);
    lemma_sum_nonneg(es, a0, i);
    if !b0.contains_key(a0) { lemma_sum_absent(es, a0, i); }
    assert(sum_for(es, a0, i + 1) == sum_for(es, a0, i) + es[i].1.value);
    assert forall|a: Seq<char>| b1.contains_key(a) <==> has_addr(es, a, i + 1) by {
        if b1.contains_key(a) {
            if a == a0 { assert(es[i].1.address@ == a); } else {
                assert(has_addr(es, a, i));
                let j = choose|j: int| 0 <= j < i && (#[trigger] es[j]).1.address@ == a;
                assert(0 <= j < i + 1 && es[j].1.address@ == a);
            }
        }
        if has_addr(es, a, i + 1) {
            let j = choose|j: int| 0 <= j < i + 1 && (#[trigger] es[j]).1.address@ == a;
            if j < i { assert(has_addr(es, a, i)); }
        }
    }
    assert forall|a: Seq<char>| b1.contains_key(a) implies #[trigger] b1[a] == sum_for(es, a, i + 1) by {
        if a != a0 { assert(sum_for(es, a, i + 1) == sum_for(es, a, i)); assert(b0.contains_key(a)); }
    }
}

pub proof fn lemma_sum_absent(es: Seq<UEntry>, a: Seq<char>, n: int)
    requires !has_addr(es, a, n), 0 <= n <= es.len(),
    ensures sum_for(es, a, n) == 0
    decreases n
{
    if n > 0 {
        assert(es[n - 1].1.address@ != a);
        assert forall|i: int| 0 <= i < n - 1 implies (#[trigger] es[i]).1.address@ != a by { }
        lemma_sum_absent(es, a, n - 1);
    }
}

} // verus!
fn main() {}
